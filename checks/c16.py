"""C16 -- multi-DEX analysis is independent of how the code is split and ordered (DESIGN.md 4.4).

Engine: seeded history search (split x add order x interleaved read-only queries) against the single-DEX reference.
"""
from __future__ import annotations

import itertools
import os
from collections import Counter

from simkit import core, driver
from simkit.core import HarnessError

PROP = "C16"
LEVEL = "exploration"
TIERS = {"quick": dict(runs=2400, wall=1400, chunk=40), "thorough": dict(runs=400000, wall=5400, chunk=200)}
TIME_UNIT = "operations (Analysis.add / query / create_xref calls) -- no clock in the code under test"
RULE = ("one evaluation = one seeded class model, one partition of its classes into 1..4 DEX files and every add order "
        "(all permutations for k<=3, a seeded sample for k=4), each with interleaved read-only queries, compared tuple by "
        "tuple with the single-DEX analysis; distinct = distinct event-log digests; non-trivial = the split has >= 2 parts "
        "and at least one reference (call, field access, new-instance, const-class) crosses from one part to another")
COMPONENTS = {"real": ["androguard.core.dex.DEX", "androguard.core.analysis.analysis.Analysis (add, create_xref, all getters)"],
              "stub": ["none; gen/dexasm.py is trusted workload (self-checked against the parser at generation time)"]}
ASSUMPTIONS = ["the single-DEX analysis is the reference (the generator's ground truth is not used as oracle)",
               "dexasm emits identical code bytes for a method in the single and in the split build, so offsets are comparable",
               "no I/O faults exist for this property: the searched space is the split, the add order and interleaved queries"]


# --------------------------------------------------------------------------
# canonical, name-based summary of an Analysis
# --------------------------------------------------------------------------

def _mkey(ma):
    m = ma.get_method()
    return (str(m.get_class_name()), str(m.get_name()), str(m.get_descriptor()).replace(" ", ""))


def _fkey(f):
    return (str(f.get_class_name()), str(f.get_name()), str(f.get_descriptor()))


def summary(dx) -> Counter:
    S = Counter()
    for n, c in dx.classes.items():
        S[("class", str(n), bool(c.is_external()))] += 1
    for ma in dx.get_methods():
        k = _mkey(ma)
        S[("method", k, bool(ma.is_external()))] += 1
        for c, m, off in ma.get_xref_to():
            S[("m.to", k, str(c.name), _mkey(m), off)] += 1
        for c, m, off in ma.get_xref_from():
            S[("m.from", k, str(c.name), _mkey(m), off)] += 1
        for c, f, off in ma.get_xref_read():
            S[("m.read", k, _fkey(f), off)] += 1
        for c, f, off in ma.get_xref_write():
            S[("m.write", k, _fkey(f), off)] += 1
        for c, off in ma.get_xref_new_instance():
            S[("m.new", k, str(c.name), off)] += 1
        for c, off in ma.get_xref_const_class():
            S[("m.cc", k, str(c.name), off)] += 1
    for f in dx.get_fields():
        fk = _fkey(f.get_field())
        S[("field", fk)] += 1
        for c, m, off in f.get_xref_read(True):
            S[("f.read", fk, _mkey(m), off)] += 1
        for c, m, off in f.get_xref_write(True):
            S[("f.write", fk, _mkey(m), off)] += 1
    for s, sa in dx.strings.items():
        S[("string", str(s))] += 1
        for c, m in sa.get_xref_from():
            S[("s.from", str(s), _mkey(m))] += 1
        for c, m, off in sa.get_xref_from(with_offset=True) if _has_with_offset(sa) else []:
            S[("s.from@", str(s), _mkey(m), off)] += 1
    for n, ca in dx.classes.items():
        for m, off in ca.get_xref_new_instance():
            S[("c.new", str(n), _mkey(m), off)] += 1
        for m, off in ca.get_xref_const_class():
            S[("c.cc", str(n), _mkey(m), off)] += 1
        for oc, refs in ca.get_xref_to().items():
            for kind, m, off in refs:
                S[("c.to", str(n), str(oc.name), int(kind), _mkey(m), off)] += 1
        for oc, refs in ca.get_xref_from().items():
            for kind, m, off in refs:
                S[("c.from", str(n), str(oc.name), int(kind), _mkey(m), off)] += 1
    return S


_WO = {}


def _has_with_offset(sa):
    t = type(sa)
    if t not in _WO:
        import inspect
        try:
            _WO[t] = "with_offset" in inspect.signature(sa.get_xref_from).parameters
        except (TypeError, ValueError):
            _WO[t] = False
    return _WO[t]


# where does a tuple's *source* method live, where its *target*?
def _src_dst(t):
    k = t[0]
    if k in ("m.to",):
        return t[1][0], t[2]
    if k in ("m.from",):
        return t[3][0], t[1][0]
    if k in ("m.read", "m.write"):
        return t[1][0], t[2][0]
    if k in ("m.new", "m.cc"):
        return t[1][0], t[2]
    if k in ("f.read", "f.write"):
        return t[2][0], t[1][0]
    if k in ("c.new", "c.cc"):
        return t[2][0], t[1]
    if k in ("c.to",):
        return t[1], t[2]
    if k in ("c.from",):
        return t[2], t[1]
    if k in ("s.from", "s.from@"):
        return t[2][0], None
    return None, None


def classify(t, direction, part_of, what):
    src, dst = _src_dst(t)
    if src is None:
        where = "n/a"
    elif dst is None:
        where = "same"
    elif dst not in part_of:
        where = "external"
    elif part_of.get(src) == part_of[dst]:
        where = "same"
    else:
        where = "other"
    return f"C16:{t[0]}:{direction}:{where}:{what}"


# --------------------------------------------------------------------------
# case
# --------------------------------------------------------------------------

APKS_SMALL = ["multidex.apk"]
APKS_BIG = ["app-prod-debug.apk", "com.example.android.wearable.wear.weardrawers.apk"]


def _apk_path(name):
    p = os.path.join(core.CORPUS_DIR, "apk", name)
    if os.path.exists(p):
        return p
    p = os.path.join(core.repo_root(), "tests", "data", "APK", name)
    return p if os.path.exists(p) and os.path.getsize(p) > 0 else None


def draw_case(seed):
    from gen import models
    r = core.rng(seed, "workload")
    pick = core.rng(seed, "source").random()
    if pick < 0.004:
        return {"seed": seed, "apk": r.choice(APKS_SMALL)}
    if pick < 0.0046 and os.environ.get("VERIF_TIER_NAME") == "thorough":
        return {"seed": seed, "apk": r.choice(APKS_BIG)}
    model = models.xref_model(r)
    n = len(model["classes"])
    k = r.choice([1, 2, 2, 2, 3, 3, 4])
    k = min(k, n)
    assignment = [r.randrange(k) for _ in range(n)]
    for p in range(k):                  # every part non-empty
        if p not in assignment:
            assignment[r.randrange(n)] = p
    parts = sorted(set(assignment))
    assignment = [parts.index(a) for a in assignment]
    k = len(parts)
    perms = list(itertools.permutations(range(k)))
    if k >= 4:
        perms = [perms[0]] + r.sample(perms[1:], 5)
    qr = core.rng(seed, "queries")
    orders = []
    for p in perms:
        orders.append({"order": list(p),
                       "queries": [qr.choice(["classes", "methods", "find", "present", "strings", "by-name", "by-name", "none", "none"]) for _ in p],
                       "empty_at": qr.randrange(len(p) + 1) if qr.random() < 0.15 else None})
    return {"seed": seed, "model": model, "assignment": assignment, "orders": orders,
            "zero_signature": core.rng(seed, "sig").random() < 0.15,
            "reuse_dex_objects": core.rng(seed, "reuse").random() < 0.2,
            "sched_seed": core.rng(seed, "sched").getrandbits(40), "preempt": core.rng(seed, "sched-rate").choice([0.005, 0.03, 0.1])}


def _query(dx, what, model):
    if what == "classes":
        list(dx.get_classes())
        list(dx.get_internal_classes())
        list(dx.get_external_classes())
    elif what == "methods":
        list(dx.get_methods())
        list(dx.get_fields())
    elif what == "find":
        list(dx.find_classes(".*"))
        list(dx.find_methods(".*", ".*"))
        list(dx.find_strings(".*"))
        list(dx.find_fields(".*", ".*"))
    elif what == "present":
        for c in model["classes"][:3]:
            dx.is_class_present(c["desc"])
            dx.get_class_analysis(c["desc"])
    elif what == "strings":
        list(dx.get_strings())
        dx.get_strings_analysis()
    elif what == "by-name":
        # look-ups by name (read-only): methods, fields and classes of the model, whether already added or not
        for c in model["classes"][:4]:
            for m in (c["dmethods"] + c["vmethods"])[:3]:
                desc = "(" + " ".join(m["params"]) + ")" + m["ret"]
                dx.get_method_analysis_by_name(c["desc"], m["name"], desc)
                dx.get_method_by_name(c["desc"], m["name"], desc)
            for f in (c["sfields"] + c["ifields"])[:2]:
                dx.get_field_analysis(None) if False else None
            dx.get_class_analysis(c["desc"])


def execute_apk(case):
    """Order half only: the real DEX files of a multi-DEX APK, added in every order, must give equal summaries."""
    from androguard.core import apk, dex
    from androguard.core.analysis.analysis import Analysis
    log = core.EventLog()
    path = _apk_path(case["apk"])
    if path is None:
        return {"problems": [], "digest": log.digest(), "probes": {}, "units": 0, "nontrivial": False, "log": [],
                "skipped": {"apk-not-available:" + case["apk"]: 1}, "extra": {}}
    with open(path, "rb") as f:
        a = apk.APK(f.read(), raw=True)
    raws = list(a.get_all_dex())
    perms = list(itertools.permutations(range(len(raws))))[:6]
    problems = {}
    ref = None
    units = 0
    for p in perms:
        dx = Analysis()
        for i in p:
            dx.add(dex.DEX(raws[i]))
            units += 1
        dx.create_xref()
        S = summary(dx)
        log.add("apk", "order", [case["apk"], list(p), len(S), core.digest_of(sorted(map(repr, S.items())))])
        if ref is None:
            ref = S
            continue
        for t in set(S) | set(ref):
            if S.get(t, 0) != ref.get(t, 0):
                sig = f"C16:{t[0]}:differs:apk:order"
                problems.setdefault(sig, f"{case['apk']}: tuple {t!r} appears {ref.get(t, 0)}x with order {list(perms[0])} "
                                         f"but {S.get(t, 0)}x with order {list(p)}")
    return {"problems": sorted(problems.items()), "digest": log.digest(), "probes": {"real-multidex-apk-orders": len(perms)},
            "units": units, "nontrivial": len(raws) >= 2, "log": log.events,
            "extra": {"orders": len(perms), "tuples_compared": len(ref or ()) * len(perms)}}


def execute(case):
    if "apk" in case:
        return execute_apk(case)
    from androguard.core import dex
    from androguard.core.analysis.analysis import Analysis
    from gen import dexasm
    model = case["model"]
    log = core.EventLog()
    probes = {}

    def probe(n, v=1):
        probes[n] = probes.get(n, 0) + v

    raw0, lay0 = dexasm.assemble(model)
    try:
        dexasm.selfcheck(model, raw0, lay0)
    except dexasm.AsmError as e:
        # The self-check parses the generated file with the code under test.  A disagreement is either a generator bug or a
        # parser that reads a well-formed file wrongly; the generator has been exercised on millions of models, so the case
        # is not thrown away: the split / order comparison still runs (it needs no ground truth), the disagreement is counted.
        probe("generator-self-check-disagrees-with-the-parser")
        log.add("ref", "selfcheck", str(e)[:120])

    def unsigned(raw):
        """the SHA-1 signature field left zero, as some tools write it (only the Adler-32 is verified by androguard)"""
        if not case.get("zero_signature"):
            return raw
        b = bytearray(raw)
        b[12:32] = bytes(20)
        return dexasm.fix_adler(b)
    raw0 = unsigned(raw0)
    if case.get("zero_signature"):
        probe("dex-files-with-zero-signature-field")
    try:
        dx0 = Analysis()
        dx0.add(dex.DEX(raw0))
        dx0.create_xref()
        S0 = summary(dx0)
    except HarnessError:
        raise
    except Exception as e:
        # the single-DEX analysis itself fails on this (malformed) model: every split must fail the same way
        S0 = Counter({("EXC", type(e).__name__): 1})
        probe("single-dex-analysis-raised")
    log.add("ref", "summary", [len(S0), core.digest_of(sorted(map(repr, S0.items())))])

    subs = dexasm.split(model, case["assignment"])
    raws = []
    for sm in subs:
        raw, lay = dexasm.assemble(sm)
        for key, m in lay["methods"].items():
            if lay0["methods"][key]["offsets"] != m["offsets"] or lay0["methods"][key]["units"] != m["units"]:
                raise HarnessError("generator: code layout differs between single and split build")
        raws.append(unsigned(raw))
    part_of = {c["desc"]: a for c, a in zip(model["classes"], case["assignment"])}
    empty_raw = None
    problems = {}
    units = 0
    results = []
    crossing = 0
    for t in S0:
        src, dst = _src_dst(t)
        if src is not None and dst is not None and dst in part_of and src in part_of and part_of[src] != part_of[dst]:
            crossing += 1
    if crossing:
        probe("reference-crosses-dex-boundary", crossing)
    import androguard
    from simkit import threadsim
    ag_prefix = os.path.dirname(os.path.abspath(androguard.__file__)) + os.sep
    sched_base = case.get("sched_seed", case["seed"])
    preempt = case.get("preempt", 0.03)
    threads_seen = 0

    parsed_cache = {}

    def parsed(pi):
        """a DEX object for part pi: parsed afresh for every analysis, or (case flag) parsed once and used by all of them"""
        if not case.get("reuse_dex_objects"):
            return dex.DEX(raws[pi])
        if pi not in parsed_cache:
            parsed_cache[pi] = dex.DEX(raws[pi])
        return parsed_cache[pi]

    def one_run(oi, o, sched_k):
        """one history: Analysis(), add in order with interleaved queries, create_xref -- under the thread simulator, so
        that threads the code under test may start are scheduled by the seed (no thread is started on the unchanged tree)"""
        nonlocal units, empty_raw, threads_seen
        with threadsim.Simulation((sched_base * 1000003 + oi * 101 + sched_k) & 0xFFFFFFFFFFFF, preempt=preempt,
                                  trace_prefix=ag_prefix) as sim:
            dx = Analysis()
            pos_of = {}
            for step, pi in enumerate(o["order"]):
                if o.get("empty_at") == step:
                    if empty_raw is None:
                        empty_raw, _ = dexasm.assemble({"classes": [], "strings_extra": []})
                    dx.add(dex.DEX(empty_raw))
                    probe("empty-dex-added")
                    units += 1
                dx.add(parsed(pi))
                pos_of[pi] = step
                units += 1
                q = o["queries"][step] if step < len(o["queries"]) else "none"
                if q != "none":
                    _query(dx, q, model)
                    units += 1
            dx.create_xref()
            units += 1
        S = summary(dx)
        log.add(oi, "order", [o["order"], o["queries"], o.get("empty_at"), sched_k, sim.threads_started, sim.switches,
                              len(S), core.digest_of(sorted(map(repr, S.items())))])
        if sim.threads_started:
            threads_seen += sim.threads_started
            probe("threads-started-by-code-under-test", sim.threads_started)
            probe("simulated-context-switches", sim.switches)
        return S, pos_of, sim.threads_started

    run_orders = []          # the order descriptor of every summary in `results`
    for oi, o in enumerate(case["orders"]):
        try:
            S, pos_of, nthreads = one_run(oi, o, 0)
        except HarnessError:
            raise
        except Exception as e:
            if ("EXC", type(e).__name__) in S0:
                log.add(oi, "order-raised-like-reference", [o["order"], type(e).__name__])
                continue
            # the single-DEX analysis of the same classes succeeded: an exception for a split / order is a difference
            import traceback
            tb = traceback.extract_tb(e.__traceback__)
            where = next((f"{os.path.basename(fr.filename)}:{fr.name}" for fr in reversed(tb) if "androguard" in fr.filename), "?")
            problems.setdefault(f"C16:exception:{type(e).__name__}:{where}:split",
                                f"split {case['assignment']} order {o['order']} raised {type(e).__name__}: {e} (in {where}); "
                                "the single-DEX analysis of the same classes succeeds")
            log.add(oi, "order-raised", [o["order"], type(e).__name__])
            continue
        results.append(S)
        run_orders.append(o)
        if nthreads:
            # the code under test is concurrent: the same history again under other seeded interleavings
            for k in (1, 2, 3):
                S2, _, _ = one_run(oi, o, k)
                results.append(S2)
                run_orders.append(o)
        # callee defined in a later-added DEX?
        for t in S0:
            if t[0] == "m.to":
                src, dst = _src_dst(t)
                if src in part_of and dst in part_of and pos_of[part_of[dst]] > pos_of[part_of[src]]:
                    probe("callee-defined-in-later-added-dex")
                    break
    # order differences (between orders of the same split) are their own class
    order_diff = set()
    for ri, S in enumerate(results[1:] if results else [], 1):
        # same add order as an earlier run, different seeded thread interleaving -> "schedule"; else -> "order"
        same_order_ref = next((j for j in range(ri) if run_orders[j] is run_orders[ri]), None)
        for ref_i, what in ((same_order_ref, "schedule"), (0, "order")):
            if ref_i is None or (what == "order" and run_orders[ri] is run_orders[0]):
                continue
            R = results[ref_i]
            for t in set(S) | set(R):
                if S.get(t, 0) != R.get(t, 0):
                    order_diff.add(t)
                    sig = classify(t, "differs", part_of, what)
                    if what == "schedule":
                        problems.setdefault(sig, f"tuple {t!r} appears {R.get(t, 0)}x and {S.get(t, 0)}x in two runs of the same "
                                                 f"history (add order {run_orders[ri]['order']}) under different thread interleavings")
                    else:
                        problems.setdefault(sig, f"tuple {t!r} appears {R.get(t, 0)}x with order {run_orders[0]['order']} but "
                                                 f"{S.get(t, 0)}x with order {run_orders[ri]['order']}")
    for oi, S in enumerate(results):
        for t in set(S) | set(S0):
            if t in order_diff:
                continue
            a, b = S0.get(t, 0), S.get(t, 0)
            if a != b:
                sig = classify(t, "missing" if b < a else "extra", part_of, "split")
                problems.setdefault(sig, f"{t!r}: {a}x in the single-DEX analysis, {b}x with split {case['assignment']} "
                                         f"order {run_orders[oi]['order']}")
    k = len(set(case["assignment"]))
    return {"problems": sorted(problems.items()), "digest": log.digest(), "probes": probes, "units": units,
            "nontrivial": bool(k >= 2 and crossing), "log": log.events,
            "extra": {"orders": len(case["orders"]), "tuples_compared": len(S0) * len(case["orders"]),
                      "parts": ["k=%d" % k]}}


def worker(seed):
    core.use_repo()
    case = draw_case(seed)
    out = execute(case)
    out.pop("log")
    out["faults"] = {}
    out["sample"] = None
    if "apk" in case:
        if out["nontrivial"]:
            out["sample"] = {"seed": seed, "apk": case["apk"], "verdict": [s for s, _ in out["problems"]] or "held"}
    elif out["nontrivial"] and seed % 53 == 0:
        out["sample"] = {"seed": seed, "classes": [c["desc"] for c in case["model"]["classes"]],
                         "assignment": case["assignment"], "orders": [o["order"] for o in case["orders"]][:6],
                         "queries": case["orders"][0]["queries"],
                         "verdict": [s for s, _ in out["problems"]] or "held"}
    out["case"] = case if out["problems"] else None
    return out


def digest_for_index(base, i):
    out = worker(core.derive_seed(PROP, base, i))
    return out["digest"] + ":" + ",".join(sorted(s for s, _ in out["problems"]))


def minimise(case, sig):
    if "apk" in case:
        return case, {}
    tests = [0]

    def has(c):
        tests[0] += 1
        try:
            return sig in {s for s, _ in core.isolated(execute, c)["problems"]}
        except Exception:
            return False

    cur = case
    # 1. fewer orders
    if len(cur["orders"]) > 1:
        for o in list(cur["orders"]):
            keep = [cur["orders"][0], o] if sig.endswith(":order") else [o]
            c2 = dict(cur, orders=keep)
            if has(c2):
                cur = c2
                break
    # 2. drop classes (keep assignment aligned)
    i = 0
    while i < len(cur["model"]["classes"]) and tests[0] < 200:
        cls = cur["model"]["classes"]
        if len(cls) <= 1:
            break
        m2 = dict(cur["model"], classes=cls[:i] + cls[i + 1:])
        a2 = cur["assignment"][:i] + cur["assignment"][i + 1:]
        parts = sorted(set(a2))
        if len(parts) != len(set(cur["assignment"])):
            i += 1
            continue
        c2 = dict(cur, model=m2, assignment=a2)
        if has(c2):
            cur = c2
        else:
            i += 1
    # 3. drop methods / instructions
    for ci in range(len(cur["model"]["classes"])):
        for kind in ("vmethods", "dmethods"):
            mi = 0
            while tests[0] < 300:
                ms = cur["model"]["classes"][ci][kind]
                if mi >= len(ms):
                    break
                cls2 = [dict(c) for c in cur["model"]["classes"]]
                cls2[ci][kind] = ms[:mi] + ms[mi + 1:]
                c2 = dict(cur, model=dict(cur["model"], classes=cls2))
                if has(c2):
                    cur = c2
                else:
                    mi += 1
    return cur, {"from_classes": len(case["model"]["classes"]), "shrink_runs": tests[0]}


def write_replay(case, sig, msg, info):
    out = core.isolated(execute, case)
    sigs = dict(out["problems"])
    if sig not in sigs:
        return None
    payload = {"property": PROP, "engine": "histsim", "seed": case["seed"], "config": {},
               "model": case.get("model"), "assignment": case.get("assignment"), "orders": case.get("orders"),
               "sched_seed": case.get("sched_seed"), "preempt": case.get("preempt"), "zero_signature": case.get("zero_signature"), "reuse_dex_objects": case.get("reuse_dex_objects"),
               "apk": case.get("apk"),
               "ops": [["add"] + o["order"] for o in case.get("orders", [])], "decisions": [], "faults": [],
               "violation": {"class": sig.split(":")[1], "signature": sig, "message": sigs[sig]},
               "digest": out["digest"], "trace": [list(e) for e in out["log"]], "minimised_from": info}
    name = "%s-%016x" % (sig.replace(":", "_").replace("/", "_").replace("@", "at"), case["seed"])
    return core.write_replay(PROP, name, payload)


def evidence_extra(agg):
    return {"add_orders_run": agg["extra"].get("orders", 0), "summary_tuples_compared": agg["extra"].get("tuples_compared", 0)}


def run(tier):
    os.environ["VERIF_TIER_NAME"] = tier
    return driver.explore(__import__("checks.c16", fromlist=["x"]), tier)


def replay(path):
    def rerun(rp):
        case = {"seed": rp["seed"], "apk": rp["apk"]} if rp.get("apk") else \
            {"seed": rp["seed"], "model": rp["model"], "assignment": rp["assignment"], "orders": rp["orders"],
             "sched_seed": rp.get("sched_seed") or rp["seed"], "preempt": rp.get("preempt") or 0.03,
             "zero_signature": rp.get("zero_signature"), "reuse_dex_objects": rp.get("reuse_dex_objects")}
        out = execute(case)
        return {s for s, _ in out["problems"]}, out["digest"], [f"{s}: {m}" for s, m in out["problems"]]
    return driver.replay_common(__import__("checks.c16", fromlist=["x"]), path, rerun)
