"""C22 child interpreter: one simulated process.  Reads a JSON job on stdin, writes a JSON result on stdout.

The parent starts this file with a seed-derived PYTHONHASHSEED (simulated variable 1).  The job carries the layout
seed (simulated variable 2: a seeded __hash__ for every androguard class that inherits object.__hash__) and the
decompilation history (simulated variable 3).
"""
import gc
import hashlib
import inspect
import json
import os
import random
import sys


def install_layout(seed):
    """Seam (B): identity hashes become a pure function of the seed.

    Any constant-per-object hash is a legal identity hash, so this cannot make correct code misbehave; it removes the
    accident that objects allocated together usually iterate in allocation order.
    """
    import androguard.core.analysis.analysis as an
    import androguard.decompiler.basic_blocks as bb
    import androguard.decompiler.control_flow as cf
    import androguard.decompiler.dataflow as df
    import androguard.decompiler.decompile as dc
    import androguard.decompiler.graph as gr
    import androguard.decompiler.instruction as ins
    import androguard.decompiler.node as nd
    import androguard.decompiler.dast as dast
    import androguard.decompiler.writer as wr
    rng = random.Random(seed)
    stats = {"hash_calls": 0, "patched_classes": 0}

    def h(self, _rng=rng, _stats=stats):
        _stats["hash_calls"] += 1
        d = self.__dict__
        try:
            return d["_verif_hash"]
        except KeyError:
            v = _rng.getrandbits(60)
            d["_verif_hash"] = v
            return v

    for m in (nd, bb, ins, gr, cf, df, dc, dast, wr, an):
        for n, c in sorted(vars(m).items()):
            if inspect.isclass(c) and c.__module__ == m.__name__ and c.__hash__ is object.__hash__ \
                    and "__eq__" not in c.__dict__ and "__slots__" not in c.__dict__:
                try:
                    c.__hash__ = h
                    stats["patched_classes"] += 1
                except TypeError:
                    pass
    return stats


def install_ambient(seed, amb):
    """Further ambient inputs a decompiler must not depend on, each a seeded simulated variable of the process:
    id() of androguard objects (the 'address'), the wall clock, time zone / locale variables and the working directory."""
    import builtins
    import time
    rng = random.Random(seed ^ 0x5EED1D)
    real_id = builtins.id
    import weakref
    free = []            # simulated addresses of collected objects: the next object may get one of them, as with a real allocator

    def sim_id(o):
        if type(o).__module__.startswith("androguard"):
            d = getattr(o, "__dict__", None)
            if d is not None:
                v = d.get("_verif_id")
                if v is None:
                    v = free.pop() if free else (rng.getrandbits(47) << 4)
                    try:
                        d["_verif_id"] = v
                        weakref.finalize(o, free.append, v)
                    except TypeError:
                        return real_id(o)
                return v
        return real_id(o)
    builtins.id = sim_id
    # the clock of this simulated machine: start and SPEED are seeded (a slow or stalled machine sees seconds pass
    # between two calls, a fast one microseconds); time(), monotonic() and perf_counter() all read it
    t0 = [float(amb.get("time_base", 1.6e9))]
    step = float(amb.get("clock_step", 0.0137))

    def sim_time():
        t0[0] += step
        return t0[0]
    time.time = sim_time
    time.monotonic = lambda: sim_time() - 1.5e9
    time.perf_counter = time.monotonic
    time.time_ns = lambda: int(sim_time() * 1e9)
    time.monotonic_ns = lambda: int((sim_time() - 1.5e9) * 1e9)
    for k in ("TZ", "LANG", "LC_ALL"):
        if amb.get(k):
            os.environ[k] = amb[k]
    try:
        time.tzset()
    except Exception:
        pass
    if amb.get("cwd"):
        os.makedirs(amb["cwd"], exist_ok=True)
        os.chdir(amb["cwd"])


def main():
    job = json.load(sys.stdin)
    root = job["repo"]
    sys.dont_write_bytecode = True
    sys.path.insert(0, root)
    sys.path.insert(1, job["verif"])
    from loguru import logger
    logger.remove()
    import androguard
    assert os.path.abspath(androguard.__file__).startswith(root + os.sep), androguard.__file__
    stats = {"hash_calls": 0, "patched_classes": 0}
    if job.get("layout_seed") is not None:
        stats = install_layout(job["layout_seed"])
        install_ambient(job["layout_seed"], job.get("ambient") or {})
    if job.get("recursion_limit"):
        sys.setrecursionlimit(int(job["recursion_limit"]))
    if job.get("gc") == "off":
        gc.disable()
    if job.get("junk"):
        # seam (A) only: perturb the real heap before any androguard object exists
        jr = random.Random(job["junk"])
        keep = [bytearray(jr.randrange(16, 4096)) for _ in range(jr.randrange(100, 3000))]
        del keep[::2]
    from androguard.core.analysis.analysis import Analysis
    from androguard.core.dex import DEX
    from androguard.decompiler.decompiler import DecompilerDAD
    from gen.source import load_raw
    if job.get("prior_source"):
        # earlier work of this process on ANOTHER file: parsed, partly decompiled, dropped and collected
        pd = DEX(load_raw(job["prior_source"]))
        pdx = Analysis(pd)
        pdad = DecompilerDAD(pd, pdx)
        for c in list(pd.get_classes())[:6]:
            for m in list(c.get_methods())[:6]:
                try:
                    pdad.get_source_method(m)
                except Exception:
                    pass
        del pd, pdx, pdad, c, m
        gc.collect()
    raw = load_raw(job["source"])
    d = DEX(raw)
    dx = Analysis(d)
    if job.get("xref", True):
        dx.create_xref()
    dad = DecompilerDAD(d, dx)
    classes = list(d.get_classes())
    if job.get("prewarm"):
        for c in classes:
            for m in c.get_methods():
                m.get_name(), m.get_descriptor()
    out = []
    texts = {}
    want_text = set(map(tuple, job.get("want_text", [])))
    renamed = False
    for opi, op in enumerate(job["ops"]):
        kind, ci = op[0], op[1]
        if ci >= len(classes):
            continue
        c = classes[ci]
        if kind == "rn":
            # a class is renamed in the middle of the history; what is observed from here on is compared separately
            # (targets "M" / "C"), and must not depend on what was decompiled before the rename
            try:
                c.set_name(op[2])
            except Exception:
                pass
            renamed = True
            continue
        try:
            if kind in ("ms", "ma"):
                ms = list(c.get_methods())
                if op[2] >= len(ms):
                    continue
                m = ms[op[2]]
                tgt = ("M" if renamed else "m", ci, op[2])
                if kind == "ms":
                    text = dad.get_source_method(m)
                else:
                    dad.get_ast_method(m)
                    text = None
            else:
                tgt = ("C" if renamed else "c", ci, -1)
                if kind == "cs":
                    text = dad.get_source_class(c)
                else:
                    dad.get_ast_class(c)
                    text = None
        except RecursionError:
            text = "EXC:RecursionError"
        except Exception as e:  # failing deterministically is allowed; failing sometimes is not
            text = "EXC:" + type(e).__name__
        if job.get("gc") == "collect" and opi % 7 == 3:
            gc.collect()
        if text is None:
            continue
        hsh = hashlib.sha1(text.encode("utf-8", "surrogatepass")).hexdigest()[:16]
        out.append([opi, list(tgt), hsh])
        if tuple(tgt) in want_text:
            texts["%s:%d:%d" % tgt] = text
    json.dump({"results": out, "stats": stats, "texts": texts}, sys.stdout)


if __name__ == "__main__":
    main()
