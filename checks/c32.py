"""C32 -- a v1 certificate is reported only if it verifies the signature file (DESIGN.md 4.7), tamper half.

Engine iosim over archive entries, schedule degenerate, fault space ENUMERATED: every single stored-byte fault in the
.SF entry and, inside the PKCS#7 block, in the signature value, the signed attributes and the signer id of v1-signed
APKs.  After each fault the archive is rewritten and the real APK code is asked for the certificate.
"""
from __future__ import annotations

import glob
import io
import os
import re
import zipfile

from simkit import core, driver
from simkit.core import HarnessError

PROP = "C32"
LEVEL = "fault_enumeration"
TIERS = {"quick": dict(runs=100, wall=1400, chunk=1), "thorough": dict(runs=400, wall=5400, chunk=1)}
TIME_UNIT = "tampered archives parsed (no clock in the code under test)"
RULE = ("one evaluation = one v1-signed APK with exactly one stored byte altered in the .SF entry or in the signature value / "
        "signed attributes / signer id of its PKCS#7 block, archive rewritten, then APK(raw).get_certificate_der(block); the "
        "space offset x value is enumerated per region (quick: 2 values per offset, thorough: all 255, capped per worker); "
        "distinct = distinct (apk, region, offset, value) faults; non-trivial = the pristine block verified (independently "
        "re-checked with the cryptography package) and the fault is not an equivalent encoding of the same value")
COMPONENTS = {"real": ["androguard.core.apk.APK (get_file, get_certificate_der, verify_signer_info_against_sig_file, verify_signature, "
                       "find_certificate, get_certificates_v1)", "apkInspector zip reader", "asn1crypto", "cryptography"],
              "stub": ["archive entries as storage: zip re-writer replaces one entry's bytes (gen/ziprw)"]}
ASSUMPTIONS = ["only the tamper half of the property is decided here; the positive half is a pre-condition re-checked independently on "
               "each pristine block (blocks that do not verify are skipped and counted)",
               "an exception out of get_certificate_der reports no certificate",
               "a signer-id fault that leaves the issuer canonically equal (case / white space) names the same certificate and is skipped",
               "PKCS#7 blocks with more than one SignerInfo are skipped in this version"]

SIG_RE = re.compile(r"\AMETA-INF/(?s:.)*\.(DSA|EC|RSA)\Z")
MAX_FAULTS_PER_WORKER = {"quick": 6000, "thorough": 20000}

_CANDIDATES = None


def candidates():
    global _CANDIDATES
    if _CANDIDATES is None:
        out = []
        for p in sorted(glob.glob(os.path.join(core.CORPUS_DIR, "apksig", "*.apk")) +
                        glob.glob(os.path.join(core.CORPUS_DIR, "apksig-gen", "*.apk"))):
            try:
                with zipfile.ZipFile(p) as z:
                    names = z.namelist()
            except Exception:
                continue
            sigs = [n for n in names if SIG_RE.search(n) and n.rsplit(".", 1)[0] + ".SF" in names]
            if sigs:
                out.append((os.path.basename(p), sigs))
        _CANDIDATES = out
    return _CANDIDATES


class Archive:
    """all entries of a small APK, so that one entry can be replaced and the archive re-written quickly"""

    def __init__(self, raw):
        self.entries = []
        with zipfile.ZipFile(io.BytesIO(raw)) as z:
            for zi in z.infolist():
                self.entries.append((zi, z.read(zi.filename)))

    def rebuild(self, name, data2, extra_first=(), extra_last=()):
        out = io.BytesIO()
        with zipfile.ZipFile(out, "w") as z:
            for n, d in extra_first:
                z.writestr(n, d)
            for zi, data in self.entries:
                z.writestr(zi, data2 if zi.filename == name else data, compress_type=zi.compress_type)
            for n, d in extra_last:
                z.writestr(n, d)
        return out.getvalue()


def _find_unique(hay, needle):
    i = hay.find(needle)
    if i < 0 or hay.find(needle, i + 1) >= 0:
        return None
    return i


def _canon_issuer(name):
    out = []
    for rdn in name.chosen:
        part = []
        for atv in rdn:
            v = atv["value"].native
            if isinstance(v, str):
                # X500Principal canonical form (what Android compares): trim, collapse inner white space,
                # upper- then lower-case, NFKD-normalise.  Written here independently of androguard's canonical_name.
                import unicodedata
                v = unicodedata.normalize("NFKD", " ".join(v.split()).upper().lower())
            part.append((atv["type"].dotted, v))
        out.append(tuple(sorted(part, key=repr)))
    return tuple(out)


def independent_verify(blob, sf):
    """Does the certificate named by the (single) SignerInfo verify the signature over the .SF?  Independent of androguard."""
    import hashlib
    from asn1crypto import cms
    from cryptography.exceptions import InvalidSignature
    from cryptography.hazmat.primitives import hashes, serialization
    from cryptography.hazmat.primitives.asymmetric import dsa, ec, ed448, ed25519, padding, rsa
    ci = cms.ContentInfo.load(blob)
    sd = ci["content"]
    si = sd["signer_infos"][0]
    sid = si["sid"].chosen
    cert = None
    for c in sd["certificates"]:
        if c.name != "certificate":
            continue
        tbs = c.chosen["tbs_certificate"]
        if tbs["serial_number"].native == sid["serial_number"].native and _canon_issuer(tbs["issuer"]) == _canon_issuer(sid["issuer"]):
            cert = c.chosen
            break
    if cert is None:
        return None, None
    alg = si["digest_algorithm"]["algorithm"].native
    H = {"md5": hashes.MD5, "sha1": hashes.SHA1, "sha224": hashes.SHA224, "sha256": hashes.SHA256, "sha384": hashes.SHA384,
         "sha512": hashes.SHA512}[alg]
    if si["signed_attrs"].native:
        mds = [a for a in si["signed_attrs"] if a["type"].dotted == "1.2.840.113549.1.9.4"]
        # exactly one messageDigest attribute with exactly one value (RFC 5652, 11.2), equal to the digest of the .SF
        if len(mds) != 1 or len(mds[0]["values"]) != 1 or mds[0]["values"][0].native != hashlib.new(alg, sf).digest():
            return None, None
        signed = b"\x31" + si["signed_attrs"].dump()[1:]
    else:
        signed = sf
    key = serialization.load_der_public_key(cert.public_key.dump())
    sig = si["signature"].native
    try:
        if isinstance(key, rsa.RSAPublicKey):
            key.verify(sig, signed, padding.PKCS1v15(), H())
            kalg = "rsa"
        elif isinstance(key, dsa.DSAPublicKey):
            key.verify(sig, signed, H())
            kalg = "dsa"
        elif isinstance(key, ec.EllipticCurvePublicKey):
            key.verify(sig, signed, ec.ECDSA(H()))
            kalg = "ec"
        elif isinstance(key, (ed25519.Ed25519PublicKey, ed448.Ed448PublicKey)):
            key.verify(sig, signed)
            kalg = "eddsa"
        else:
            return None, None
    except InvalidSignature:
        return None, None
    return cert.dump(), kalg


def plan(apk_name, sig_name):
    """-> dict(regions={name: (entry, bytes, lo, hi)}, kalg, cert) or (None, reason)"""
    from asn1crypto import cms
    sub = "apksig-gen" if apk_name.startswith("gen-") else "apksig"
    raw = open(os.path.join(core.CORPUS_DIR, sub, apk_name), "rb").read()
    try:
        ar = Archive(raw)
    except Exception as e:
        return None, "zip-unreadable"
    ent = {zi.filename: d for zi, d in ar.entries}
    blob = ent[sig_name]
    sfn = sig_name.rsplit(".", 1)[0] + ".SF"
    sf = ent[sfn]
    try:
        ci = cms.ContentInfo.load(blob)
        sis = ci["content"]["signer_infos"]
        nsi = len(sis)
    except Exception:
        return None, "pkcs7-unparsable"
    if nsi != 1:
        return None, "more-than-one-signerinfo"
    try:
        cert, kalg = independent_verify(blob, sf)
    except Exception as e:
        return None, "independent-verifier-error:" + type(e).__name__
    if cert is None:
        return None, "pristine-block-does-not-verify-independently"
    si = sis[0]
    regions = {"sf": (sfn, sf, 0, len(sf))}
    o = _find_unique(blob, si["signature"].contents)
    if o is not None:
        regions["sigvalue"] = (sig_name, blob, o, o + len(si["signature"].contents))
    if si["signed_attrs"].native:
        d = si["signed_attrs"].dump()
        o = _find_unique(blob, d)
        if o is not None:
            regions["signed-attrs"] = (sig_name, blob, o, o + len(d))
    d = si["sid"].chosen.dump()
    o = _find_unique(blob, d)
    if o is not None:
        regions["sid"] = (sig_name, blob, o, o + len(d))
    # the outer DER structure of the block (ContentInfo / SignedData tags and lengths): a block that cannot even be parsed
    regions["block-head"] = (sig_name, blob, 0, min(24, len(blob)))
    # the other signature blocks of the same archive (queried on the same APK object as "earlier work")
    others = []
    other_certs = []
    for n in sorted(ent):
        if n != sig_name and SIG_RE.search(n) and n.rsplit(".", 1)[0] + ".SF" in ent:
            others.append(n)
            try:
                oc, _ = independent_verify(ent[n], ent[n.rsplit(".", 1)[0] + ".SF"])
            except Exception:
                oc = None
            other_certs.append(oc)
    return {"raw": raw, "archive": ar, "regions": regions, "kalg": kalg, "cert": cert, "blob": blob, "sf": sf,
            "others": others, "cert_is_unique": cert not in other_certs, "other_certs": [c for c in other_certs if c]}, None


def equivalent(region, blob0, blob1):
    """is the altered block the same PKCS#7 value (or does it name the same certificate)?"""
    from asn1crypto import cms
    try:
        a = cms.ContentInfo.load(blob0)
        b = cms.ContentInfo.load(blob1)
        if a.native == b.native:
            return "same-asn1-value"
        if region == "sid":
            sa, sb = a["content"]["signer_infos"][0], b["content"]["signer_infos"][0]
            if sa["sid"].chosen["serial_number"].native == sb["sid"].chosen["serial_number"].native and \
                    _canon_issuer(sa["sid"].chosen["issuer"]) == _canon_issuer(sb["sid"].chosen["issuer"]):
                na, nb = a.native, b.native
                na["content"]["signer_infos"][0]["sid"] = None
                nb["content"]["signer_infos"][0]["sid"] = None
                if na == nb:
                    return "signer-id-canonically-equal"
    except Exception:
        return None
    return None


def _case_variant(name):
    head, tail = name.rsplit("/", 1) if "/" in name else ("", name)
    tail2 = tail.lower() if tail != tail.lower() else tail.upper()
    return (head + "/" if head else "") + tail2


_PRIOR_CACHE = {}


def _process_prior(names):
    """earlier work in the same process: other archives are opened and their v1 certificates are asked for"""
    from androguard.core.apk import APK
    for nme in names or ():
        if nme not in _PRIOR_CACHE:
            sub = "apksig-gen" if nme.startswith("gen-") else "apksig"
            with open(os.path.join(core.CORPUS_DIR, sub, nme), "rb") as f:
                _PRIOR_CACHE[nme] = f.read()
        try:
            APK(_PRIOR_CACHE[nme], raw=True).get_certificates_v1()
        except Exception:
            pass


def reorder_attrs_bytes(blob, region):
    """the signed attributes with their first two members swapped (same length, same SET, different bytes)"""
    from asn1crypto import cms
    ename, data, lo, hi = region
    sa = cms.ContentInfo.load(blob)["content"]["signer_infos"][0]["signed_attrs"]
    parts = [a.dump() for a in sa]
    if len(parts) < 2 or parts[0] == parts[1]:
        return None
    whole = sa.dump()
    body = b"".join(parts)
    head = whole[:len(whole) - len(body)]
    new = head + parts[1] + parts[0] + b"".join(parts[2:])
    if len(new) != hi - lo or new == data[lo:hi]:
        return None
    return new


def _der_len(n):
    if n < 0x80:
        return bytes([n])
    b = n.to_bytes((n.bit_length() + 7) // 8, "big")
    return bytes([0x80 | len(b)]) + b


def reencoded_signatures(p):
    """Encoding-level alterations of the signature value: {name: new signature value}.  The value is altered (other bytes,
    other length) although a lenient decoder would read the same numbers from it."""
    from asn1crypto import cms
    sig = cms.ContentInfo.load(p["blob"])["content"]["signer_infos"][0]["signature"].native
    out = {"append-00": sig + b"\x00", "append-junk": sig + b"\x30\x03\x02\x01\x01", "truncate-1": sig[:-1],
           "prepend-00": b"\x00" + sig}
    if p["kalg"] in ("dsa", "ec") and len(sig) > 8 and sig[0] == 0x30:
        # SEQUENCE { INTEGER r, INTEGER s }
        try:
            hl = 2 if sig[1] < 0x80 else 2 + (sig[1] & 0x7F)
            body = sig[hl:]
            assert body[0] == 0x02 and body[1] < 0x80
            r_ = body[2:2 + body[1]]
            rest = body[2 + body[1]:]
            assert rest[0] == 0x02
            n_ = len(body)               # the same length, written with one length byte more than DER allows
            out["long-form-length"] = b"\x30" + (b"\x81" + bytes([n_]) if n_ < 0x80 else
                                                 b"\x82\x00" + bytes([n_]) if n_ < 0x100 else
                                                 b"\x83\x00" + n_.to_bytes(2, "big")) + body
            body2 = b"\x02" + _der_len(len(r_) + 1) + b"\x00" + r_ + rest
            out["zero-padded-r"] = b"\x30" + _der_len(len(body2)) + body2
            body3 = body + b"\x05\x00"
            out["extra-member"] = b"\x30" + _der_len(len(body3)) + body3
            out["indefinite-length"] = b"\x30\x80" + body + b"\x00\x00"
        except (AssertionError, IndexError):
            pass
    return {k: v for k, v in out.items() if v != sig}


def block_with_signature(blob, newsig):
    """the block re-serialised with another signature value (only the lengths on the path to the value change)"""
    from asn1crypto import cms
    ci = cms.ContentInfo.load(blob)
    ci["content"]["signer_infos"][0]["signature"] = newsig
    return ci.dump()


def tamper(p, sig_name, region, off, val, max_sdk=None, others_first=False, twin=None, prior=None, replace=None, new_entry=None):
    """One altered byte, archive re-written, then a short history of queries on ONE APK object:
    (optionally the untouched blocks first,) the tampered block through get_certificate_der(block, max_sdk_version),
    then get_certificates_v1()."""
    from androguard.core.apk import APK
    ename, data, lo, hi = p["regions"][region]
    d = bytearray(data)
    if new_entry is not None:
        d = bytearray(new_entry)     # the whole entry re-serialised (its length may differ)
    elif replace is not None:
        d[lo:hi] = replace           # an encoding-level alteration of the whole region (same length)
    else:
        d[off] = val
    extra_first, extra_last = (), ()
    if twin:
        # the untouched bytes of the altered entry under a name that differs only in case, before or after it
        t = [(_case_variant(ename), bytes(data))]
        extra_first, extra_last = (t, ()) if twin == "before" else ((), t)
    raw2 = p["archive"].rebuild(ename, bytes(d), extra_first, extra_last)
    _process_prior(prior)
    a = None
    try:
        a = APK(raw2, raw=True)
        if others_first:
            for o in p["others"]:
                try:
                    a.get_certificate_der(o, max_sdk) if max_sdk is not None else a.get_certificate_der(o)
                except Exception:
                    pass
        c = a.get_certificate_der(sig_name, max_sdk) if max_sdk is not None else a.get_certificate_der(sig_name)
        detail = "none" if c is None else "certificate"
    except Exception as e:
        c = None
        detail = "exc:" + type(e).__name__
    if a is not None:
        # the second observation point: the verified-certificate list must not contain the tampered block's certificate
        try:
            v1 = [x.dump() for x in a.get_certificates_v1()]
        except Exception:
            v1 = []
        if c is None and p["cert_is_unique"] and p["cert"] in v1:
            c = p["cert"]
            detail = "certificate-in-v1-list-only"
        elif c is None and len(v1) > len(p["other_certs"]):
            # more certificates than blocks that can verify: one of them is reported for the altered block
            from collections import Counter
            extra = Counter(v1) - Counter(p["other_certs"])
            if extra:
                c = next(iter(extra))
                detail = "extra-certificate-in-v1-list(%d for %d verifying blocks)" % (len(v1), len(p["other_certs"]))
        elif c is not None:
            detail += "+v1list=%d" % len(v1)
    return c, detail, bytes(d)


def _invalid_block_query(apk_name, sig_name, prior, max_sdk):
    from androguard.core.apk import APK
    sub = "apksig-gen" if apk_name.startswith("gen-") else "apksig"
    raw = open(os.path.join(core.CORPUS_DIR, sub, apk_name), "rb").read()
    _process_prior(prior)
    try:
        a = APK(raw, raw=True)
        c = a.get_certificate_der(sig_name, max_sdk) if max_sdk is not None else a.get_certificate_der(sig_name)
        return "none" if c is None else "certificate"
    except Exception as e:
        return "exc:" + type(e).__name__


_SIGNER_IDS = {}


def _signer_ids(apk_name):
    """{(canonical issuer, serial)} of the certificates carried by the signature blocks of an archive"""
    if apk_name not in _SIGNER_IDS:
        from asn1crypto import cms
        ids = set()
        sub = "apksig-gen" if apk_name.startswith("gen-") else "apksig"
        try:
            with zipfile.ZipFile(os.path.join(core.CORPUS_DIR, sub, apk_name)) as z:
                for n in z.namelist():
                    if SIG_RE.search(n):
                        try:
                            for c in cms.ContentInfo.load(z.read(n))["content"]["certificates"]:
                                if c.name == "certificate":
                                    t = c.chosen["tbs_certificate"]
                                    ids.add((repr(_canon_issuer(t["issuer"])), t["serial_number"].native))
                        except Exception:
                            pass
        except Exception:
            pass
        _SIGNER_IDS[apk_name] = ids
    return _SIGNER_IDS[apk_name]


def related_archives(apk_name, pool):
    """archives of the pool that carry a certificate with the same issuer and serial number as one of apk_name's"""
    mine = _signer_ids(apk_name)
    return [n for n in pool if n != apk_name and mine & _signer_ids(n)]


def invalid_block_case(seed, apk_name, sig_name, gen_names):
    fr = core.rng(seed, "faults")
    problems = {}
    fired = {}
    n = 0
    rel = related_archives(apk_name, gen_names)
    hist = [[], list(gen_names)] + [[x] for x in rel] + ([rel] if len(rel) > 1 else []) + \
        [[fr.choice(gen_names)] for _ in range(2) if gen_names]
    for prior in hist:
        for max_sdk in (None, 23, 30):
            # every history starts from a clean process state (a fork of this worker before it has run anything of the
            # history): histories must not influence each other through state the code under test keeps in the process
            res = core.isolated(_invalid_block_query, apk_name, sig_name, prior, max_sdk)
            n += 1
            fired["invalid-block-queried"] = fired.get("invalid-block-queried", 0) + 1
            if prior:
                fired["history:other-archive-processed-first"] = fired.get("history:other-archive-processed-first", 0) + 1
            if res == "certificate":
                cur = problems.get("C32:accepted:invalid-block" + core.opt_suffix())
                # keep the example whose history is most explicit: an acceptance seen with an empty history may rest on what
                # earlier cases left behind in this worker process and would then not replay from a clean state
                better = cur is None or (not cur["fault"][6] and prior) or (prior and len(prior) < len(cur["fault"][6]))
                # (the shortest non-empty history: long ones may depend on cache sizes / eviction order)
                if better:
                    problems["C32:accepted:invalid-block" + core.opt_suffix()] = {
                        "msg": f"{apk_name} {sig_name}: the block's signature does not verify (independent check) but a "
                               f"certificate is reported (max_sdk_version={max_sdk}, archives processed before: {prior})",
                        "fault": ["invalid-block", 0, 0, max_sdk, False, None, list(prior)]}
    case = {"seed": seed, "apk": apk_name, "sig": sig_name, "by_sig": {s: v["fault"] for s, v in problems.items()}} if problems else None
    return {"problems": [(s, v["msg"]) for s, v in sorted(problems.items())], "digest": core.digest_of([apk_name, sig_name, "invalid", n, sorted(problems)]),
            "probes": {"invalid-blocks-checked": 1}, "faults": fired, "units": n, "nontrivial": False, "cases": n, "sample": None,
            "case": case, "skipped": {}, "extra": {"nontrivial_faults": n, "blocks": 1, "blocks_fully_enumerated": 0, "apks": [apk_name]}}


_INDEX = {}


def run_index(seed):
    """position of this run in the batch (None outside a batch): the first runs of every batch sweep the invalid blocks"""
    if not _INDEX:
        base = core.base_seed()
        for i in range(4096):
            _INDEX[core.derive_seed(PROP, base, i)] = i
    return _INDEX.get(seed)


def invalid_blocks():
    """(archive, block) pairs whose signature does not verify independently: the forged blocks of corpus/apksig-gen and
    apksig's negative samples"""
    out = []
    for name, sigs in candidates():
        if "forged" in name or "wrong-" in name or "missing-digest" in name:
            out += [(name, s) for s in sigs]
    return out


OPT_SHARE = 0.15     # share of the runs that execute in an interpreter started with -O / -OO


def generated_blocks():
    """(archive, block) pairs of the generated archives whose blocks verify (several signers, Ed25519, embedded content, ...)"""
    out = []
    for name, sigs in candidates():
        if name.startswith("gen-") and "forged" not in name:
            out += [(name, s) for s in sigs]
    return out


def worker(seed):
    """one run; a seeded share of the runs executes in a child interpreter started with -O or -OO (checks written as `assert`
    or under `if __debug__:` do not exist there)"""
    if not core.child_opt_level() and not os.environ.get("VERIF_NO_OPT_CHILD"):
        ar = core.rng(seed, "ambient")
        if ar.random() < OPT_SHARE:
            lvl = ar.choice([1, 1, 2])
            out = core.in_child_interpreter("checks.c32", "worker", [seed], lvl)
            out["faults"]["ambient:interpreter -%s" % ("O" * lvl)] = 1
            if out.get("case"):
                out["case"]["opt"] = lvl
            return out
    return _worker_here(seed)


def _worker_here(seed):
    core.use_repo()
    tier = os.environ.get("VERIF_TIER_NAME", "quick")
    r = core.rng(seed, "workload")
    cands = candidates()
    if not cands:
        raise HarnessError("no v1-signed APK in corpus/apksig")
    idx = run_index(seed)
    sweep = invalid_blocks() + generated_blocks()
    fixed = sweep[idx] if (idx is not None and idx < len(sweep)) else None
    # sweep: the first runs of every batch take every invalid block and every block of the generated archives once (with
    # seeded faults and histories), so that a kind of archive is never missed by the draw; the other runs draw
    k = r.random()
    if k < 0.2:                    # the few blocks with signed attributes would otherwise rarely be drawn
        cands = [c for c in cands if "signed-attrs" in c[0]] or cands
    elif k < 0.48:                 # generated archives (corpus/apksig-gen, see gen/mk_v1_apks.py): first a KIND of archive
        gen = [c for c in cands if c[0].startswith("gen-") and "forged" not in c[0]]      # (several signers, Ed25519, embedded
        kinds = sorted({"-".join(c[0].split("-")[1:3]) for c in gen})                      # content, dotted names, ...), then
        if kinds:                                                                          # one archive of that kind
            kind = r.choice(kinds)
            cands = [c for c in gen if "-".join(c[0].split("-")[1:3]) == kind]
    elif k < 0.56:                 # forged blocks (certificate swapped for one with the same issuer and serial, other key)
        cands = [c for c in cands if "forged" in c[0]] or cands
    elif k < 0.62:                 # apksig's own negative samples: blocks that must not yield a certificate at all
        cands = [c for c in cands if "wrong-" in c[0] or "missing-digest" in c[0]] or cands
    apk_name, sigs = r.choice(cands)
    sig_name = r.choice(sigs)
    if fixed:
        apk_name, sig_name = fixed
    p, why = plan(apk_name, sig_name)
    base = {"probes": {}, "faults": {}, "units": 0, "nontrivial": False, "sample": None, "case": None, "cases": 0, "extra": {}}
    if p is None and why == "pristine-block-does-not-verify-independently":
        # a block whose signature does not verify (apksig's negative samples, the forged blocks of corpus/apksig-gen):
        # no certificate may be reported for it, whatever was processed earlier in the process
        return invalid_block_case(seed, apk_name, sig_name,
                                  [c[0] for c in candidates() if c[0].startswith("gen-") and c[0] != apk_name])
    if p is None:
        return dict(base, problems=[], digest=core.digest_of([apk_name, sig_name, why]), skipped={why: 1})
    from androguard.core.apk import APK
    try:
        c0 = APK(p["archive"].rebuild("", b""), raw=True).get_certificate_der(sig_name)
    except Exception:
        c0 = None
    if c0 is None:
        return dict(base, problems=[], digest=core.digest_of([apk_name, sig_name, "pristine-none"]),
                    skipped={"androguard-reports-no-certificate-on-the-pristine-rewritten-archive": 1})
    fr = core.rng(seed, "faults")
    cap = MAX_FAULTS_PER_WORKER[tier]
    total_space = sum(hi - lo for (_, _, lo, hi) in p["regions"].values())
    all_values = tier == "thorough" and total_space * 255 <= cap
    per_off = 255 if all_values else 2
    stride = 1
    if total_space * per_off > cap:
        stride = -(-total_space * per_off // cap)
    problems = {}
    fired = {}
    skipped = {}
    outcomes = {}
    n = 0
    nontriv = 0
    prior_pool = [c[0] for c in candidates() if c[0].startswith("gen-") and c[0] != apk_name]
    rel = related_archives(apk_name, prior_pool)
    prior_pool = rel * 4 + prior_pool          # archives sharing a signer id with this one are the interesting earlier work
    if "signed-attrs" in p["regions"]:
        new = reorder_attrs_bytes(p["blob"], p["regions"]["signed-attrs"])
        if new is not None:
            for max_sdk in (None, 23):
                c, detail, d2 = tamper(p, sig_name, "signed-attrs", 0, 0, max_sdk, False, None, None, replace=new)
                n += 1
                nontriv += 1
                fired["signed-attrs:members-reordered"] = fired.get("signed-attrs:members-reordered", 0) + 1
                if c is not None:
                    problems.setdefault(f"C32:accepted:signed-attrs-reordered:{p['kalg']}" + core.opt_suffix(),
                                        {"msg": f"{apk_name} {sig_name}: the signed attributes were re-ordered (bytes altered, same set) and a "
                                                f"certificate is still reported ({detail})",
                                         "fault": ["signed-attrs", "reorder", 0, max_sdk, False, None, None]})
    if "sigvalue" in p["regions"]:
        try:
            # soundness guard: re-serialising the block with its OWN signature value must give a block that still verifies
            from asn1crypto import cms as _cms
            same = block_with_signature(p["blob"], _cms.ContentInfo.load(p["blob"])["content"]["signer_infos"][0]["signature"].native)
        except Exception:
            same = None
        ok = False
        if same is not None:
            try:
                ok = independent_verify(same, p["sf"])[0] == p["cert"] and \
                    tamper(p, sig_name, "sigvalue", 0, 0, None, False, None, None, new_entry=same)[0] is not None
            except Exception:
                ok = False
        if not ok:
            skipped["block-does-not-survive-re-serialisation"] = 1
        else:
            for ename_, newsig in sorted(reencoded_signatures(p).items()):
                try:
                    nb = block_with_signature(p["blob"], newsig)
                    still = independent_verify(nb, p["sf"])[0]
                except Exception:
                    still = None
                if still is not None:
                    skipped["re-encoded-signature-still-verifies-independently"] = \
                        skipped.get("re-encoded-signature-still-verifies-independently", 0) + 1
                    continue
                for max_sdk in (None, 23):
                    c, detail, d2 = tamper(p, sig_name, "sigvalue", 0, 0, max_sdk, False, None, None, new_entry=nb)
                    n += 1
                    nontriv += 1
                    fired["sigvalue:re-encoded:" + ename_] = fired.get("sigvalue:re-encoded:" + ename_, 0) + 1
                    if c is not None:
                        problems.setdefault(f"C32:accepted:sigvalue-reencoded:{p['kalg']}" + core.opt_suffix(),
                                            {"msg": f"{apk_name} {sig_name}: the signature value was altered ({ename_}: "
                                                    f"{len(newsig)} bytes instead of {p['regions']['sigvalue'][3] - p['regions']['sigvalue'][2]}) "
                                                    f"and a certificate is still reported ({detail})",
                                             "fault": ["sigvalue", "enc:" + ename_, 0, max_sdk, False, None, None]})
    for region in sorted(p["regions"]):
        ename, data, lo, hi = p["regions"][region]
        start = fr.randrange(stride) if stride > 1 else 0
        for off in range(lo + start, hi, stride):
            orig = data[off]
            if all_values:
                vals = [v for v in range(256) if v != orig]
            else:
                vals = sorted({orig ^ (1 << fr.randrange(8)), (orig + 1 + fr.randrange(255)) % 256} - {orig})
            for val in vals:
                max_sdk = fr.choice([None, None, None, 23, 24, 30])
                others_first = bool(p["others"]) and fr.random() < 0.5
                twin = fr.choice(["after", "before"]) if fr.random() < 0.06 else None
                prior = [fr.choice(prior_pool)] if prior_pool and fr.random() < 0.05 else None
                c, detail, d2 = tamper(p, sig_name, region, off, val, max_sdk, others_first, twin, prior)
                if twin:
                    fired["archive:case-variant-twin-entry-" + twin] = fired.get("archive:case-variant-twin-entry-" + twin, 0) + 1
                if prior:
                    fired["history:other-archive-processed-first"] = fired.get("history:other-archive-processed-first", 0) + 1
                if others_first:
                    fired["history:other-blocks-queried-first"] = fired.get("history:other-blocks-queried-first", 0) + 1
                if max_sdk is not None:
                    fired["history:max_sdk_version=%d" % max_sdk] = fired.get("history:max_sdk_version=%d" % max_sdk, 0) + 1
                n += 1
                fired[region] = fired.get(region, 0) + 1
                outcomes[detail.split("+")[0]] = outcomes.get(detail.split("+")[0], 0) + 1
                if c is None:
                    nontriv += 1
                    continue
                eq = equivalent(region, p["blob"], d2) if region != "sf" else None
                if eq:
                    skipped[eq] = skipped.get(eq, 0) + 1
                    continue
                nontriv += 1
                sig = f"C32:accepted:{region}:{p['kalg']}" + core.opt_suffix()
                if sig not in problems:
                    problems[sig] = {"msg": f"{apk_name} {sig_name}: byte {off - lo} of {region} changed {orig:#04x} -> {val:#04x} "
                                            f"and a certificate is still reported ({detail})",
                                     "fault": [region, off - lo, val, max_sdk, others_first, twin, prior]}
    case = {"seed": seed, "apk": apk_name, "sig": sig_name, "by_sig": {s: v["fault"] for s, v in problems.items()}} if problems else None
    sample = {"seed": seed, "apk": apk_name, "block": sig_name, "key": p["kalg"],
              "regions": {k: v[3] - v[2] for k, v in p["regions"].items()}, "values_per_offset": per_off, "offset_stride": stride,
              "outcomes": outcomes} if seed % 4 == 0 else None
    return {"problems": [(s, v["msg"]) for s, v in sorted(problems.items())],
            "digest": core.digest_of([apk_name, sig_name, n, sorted(outcomes.items()), sorted(problems)]),
            "probes": {"tampered-" + k: v for k, v in outcomes.items()}, "faults": fired, "units": n, "nontrivial": False,
            "cases": n, "sample": sample, "case": case, "skipped": skipped,
            "extra": {"nontrivial_faults": nontriv, "blocks": 1, "blocks_fully_enumerated": 1 if (all_values and stride == 1) else 0,
                      "key_algorithms": [p["kalg"]], "apks": [apk_name]}}


def digest_for_index(base, i):
    out = worker(core.derive_seed(PROP, base, i))
    return out["digest"] + ":" + ",".join(sorted(s for s, _ in out["problems"]))


def _check(apk_name, sig_name, fault):
    if fault and fault[0] == "invalid-block":
        res = _invalid_block_query(apk_name, sig_name, fault[6], fault[3])
        return ("C32:accepted:invalid-block" + core.opt_suffix() if res == "certificate" else None), res
    p, why = plan(apk_name, sig_name)
    if p is None:
        return None, why
    region, roff, val, max_sdk, others_first, twin, prior = (list(fault) + [None, False, None, None])[:7]
    ename, data, lo, hi = p["regions"][region]
    if roff == "reorder":
        new = reorder_attrs_bytes(p["blob"], p["regions"]["signed-attrs"])
        c, detail, d2 = tamper(p, sig_name, region, 0, 0, max_sdk, False, None, None, replace=new)
        if c is None:
            return None, detail
        return f"C32:accepted:signed-attrs-reordered:{p['kalg']}" + core.opt_suffix(), detail
    if isinstance(roff, str) and roff.startswith("enc:"):
        newsig = reencoded_signatures(p).get(roff[4:])
        if newsig is None:
            return None, "no-such-re-encoding"
        nb = block_with_signature(p["blob"], newsig)
        c, detail, d2 = tamper(p, sig_name, region, 0, 0, max_sdk, False, None, None, new_entry=nb)
        if c is None:
            return None, detail
        return f"C32:accepted:sigvalue-reencoded:{p['kalg']}" + core.opt_suffix(), detail
    c, detail, d2 = tamper(p, sig_name, region, lo + roff, val, max_sdk, others_first, twin, prior)
    if c is None:
        return None, detail
    if region != "sf" and equivalent(region, p["blob"], d2):
        return None, "equivalent"
    return f"C32:accepted:{region}:{p['kalg']}" + core.opt_suffix(), detail


def minimise(case, sig):
    return {"seed": case["seed"], "apk": case["apk"], "sig": case["sig"], "fault": case["by_sig"][sig], "opt": case.get("opt", 0)}, \
        {"note": "a single-byte fault is minimal"}


def _check_entry(apk_name, sig_name, fault):
    core.use_repo()
    return _check(apk_name, sig_name, fault)


def write_replay(case, sig, msg, info):
    core.use_repo()
    if "by_sig" in case:
        case = {"seed": case["seed"], "apk": case["apk"], "sig": case["sig"], "fault": case["by_sig"][sig], "opt": case.get("opt", 0)}
    if case.get("opt"):
        got, detail = core.in_child_interpreter("checks.c32", "_check_entry", [case["apk"], case["sig"], case["fault"]], case["opt"])
    else:
        got, detail = core.isolated(_check, case["apk"], case["sig"], case["fault"])
    if got != sig:
        return None
    payload = {"property": PROP, "engine": "iosim-archive", "seed": case["seed"], "config": {"python_optimize": case.get("opt", 0)},
               "apk": case["apk"],
               "block": case["sig"], "faults": [case["fault"]], "ops": [["APK(raw).get_certificate_der", case["sig"]]],
               "decisions": [], "violation": {"class": "accepted", "signature": sig, "message": msg},
               "digest": core.digest_of([sig, detail]), "minimised_from": info}
    return core.write_replay(PROP, "%s-%016x" % (sig.replace(":", "_"), case["seed"]), payload)


def evidence_extra(agg):
    b = agg["extra"].get("blocks", 0)
    full = agg["extra"].get("blocks_fully_enumerated", 0)
    return {"distinct_nontrivial": int(agg["extra"].get("nontrivial_faults", 0)), "exhaustive": bool(b and b == full),
            "signature_blocks": b, "blocks_fully_enumerated": full,
            "key_algorithms": sorted(agg["extra"].get("key_algorithms", [])), "apks": len(agg["extra"].get("apks", [])),
            "interleavings": {"measure": "none: the schedule is degenerate; the enumerated dimension is the fault", "distinct": 1,
                              "possible": 1}}


def run(tier):
    os.environ["VERIF_TIER_NAME"] = tier
    return driver.explore(__import__("checks.c32", fromlist=["x"]), tier)


def replay(path):
    def rerun(rp):
        opt = (rp.get("config") or {}).get("python_optimize", 0)
        if opt:
            got, detail = core.in_child_interpreter("checks.c32", "_check_entry", [rp["apk"], rp["block"], rp["faults"][0]], opt)
        else:
            got, detail = _check(rp["apk"], rp["block"], rp["faults"][0])
        return ({got} if got else set()), core.digest_of([got, detail]), [f"detail: {detail}"]
    return driver.replay_common(__import__("checks.c32", fromlist=["x"]), path, rerun)
