"""C22 -- decompilation output is deterministic (DESIGN.md 4.2).

Engine ndsim: every source of nondeterminism named by the property is a seeded, simulated variable --
PYTHONHASHSEED of a child interpreter, the identity hash of every androguard object (seeded __hash__), and the
history of earlier decompilations in the process.  One group = one DEX source decompiled by several simulated
processes; all processes must produce the same source text for every target.
"""
from __future__ import annotations

import json
import os
import re
import subprocess
import sys

from simkit import core, driver
from simkit.core import HarnessError

PROP = "C22"
LEVEL = "exploration"
START = "fork"
TIERS = {"quick": dict(runs=96, wall=1400, chunk=1), "thorough": dict(runs=2000, wall=5400, chunk=1)}
TIME_UNIT = "decompilation operations (method/class source or AST requests) -- no clock in the code under test"
RULE = ("one evaluation = one group: one DEX source decompiled by 4-6 simulated processes, each with its own seeded "
        "PYTHONHASHSEED, seeded identity-hash layout and seeded decompilation history (order, repeats, AST requests, other "
        "classes first), all texts compared per target; distinct = distinct event-log digests; non-trivial = the patched "
        "identity hash was consulted at least once in every non-reference process of the group")
COMPONENTS = {"real": ["DEX parser", "Analysis", "the whole DAD decompiler (DvMethod/DvClass.get_source)", "CPython set/dict"],
              "stub": ["identity hash of androguard objects -> seeded __hash__ (seam B)", "PYTHONHASHSEED -> seed-derived value",
                       "order of decompilation requests -> seeded history"]}
ASSUMPTIONS = ["C-level containers in CPython order identity-hashed members only by __hash__, so a seeded __hash__ owns their iteration order",
               "real addresses (ASLR, allocator state) are never used to decide anything: they are not reproducible in this sandbox",
               "a target that raises the same exception class in every process counts as deterministic (EXC:<type> is its text)"]

CHILD = os.path.join(os.path.dirname(os.path.abspath(__file__)), "c22_child.py")
SMALL = ["Test.dex", "AnalysisTest.dex", "ExceptionHandling.dex", "FieldsTest.dex", "FillArrays.dex", "InterfaceCls.dex", "StringTests.dex"]
BIG = ["classes.dex"]
APK_DEX = [("TC-debug.apk", "classes.dex"), ("Test-debug.apk", "classes.dex"), ("com.politedroid_4.apk", "classes.dex"),
           ("duplicate.permisssions_9999999.apk", "classes.dex")]

DECL = re.compile(r"^\s*[\w.$\[\]<>]+ [\w$]+;\s*$")


def _source_path(name):
    for sub in ("dex", "dex-big"):
        p = os.path.join(core.CORPUS_DIR, sub, name)
        if os.path.exists(p):
            return p
    return None


def run_child(source, cfg, ops, want_text=()):
    job = {"repo": core.repo_root(), "verif": core.VERIF_DIR, "source": source, "layout_seed": cfg.get("layout"),
           "gc": cfg.get("gc"), "prewarm": cfg.get("prewarm"), "xref": cfg.get("xref", True), "ops": ops,
           "want_text": [list(t) for t in want_text], "ambient": cfg.get("ambient"), "prior_source": cfg.get("prior_source"),
           "recursion_limit": cfg.get("recursion_limit")}
    env = dict(os.environ, PYTHONHASHSEED=str(cfg["hashseed"]), PYTHONDONTWRITEBYTECODE="1")
    env.pop("PYTHONPATH", None)
    # the locale / text-encoding environment of the simulated process is fixed when its interpreter starts
    amb = cfg.get("ambient") or {}
    for k in ("LANG", "LC_ALL", "LC_CTYPE", "PYTHONUTF8", "PYTHONCOERCECLOCALE", "PYTHONIOENCODING", "TZ"):
        env.pop(k, None)
        if amb.get(k) not in (None, ""):
            env[k] = str(amb[k])
    try:
        p = subprocess.run([sys.executable, "-X", "faulthandler", CHILD], input=json.dumps(job), capture_output=True,
                           text=True, env=env, timeout=600)
    except subprocess.TimeoutExpired:
        raise HarnessError("C22 child exceeded the real-time watchdog (600 s)")
    if p.returncode != 0:
        raise HarnessError(f"C22 child failed rc={p.returncode}: {p.stderr[-800:]}")
    return json.loads(p.stdout)


def _targets_of(source):
    """[(class index, n methods)] -- read with the unchanged parser in this (harness) process"""
    core.use_repo()
    from androguard.core.dex import DEX
    from gen.source import load_raw
    raw = load_raw(source)
    d = DEX(raw)
    return [(ci, len(list(c.get_methods()))) for ci, c in enumerate(d.get_classes())]


def draw_group(seed):
    r = core.rng(seed, "workload")
    k = r.random()
    if k < 0.55:
        from gen import models
        source = {"kind": "gen", "model": models.structured_model(r, ncls=r.randint(1, 3), nmeth=r.randint(3, 8))}
        sid = "gen"
    elif k < 0.70:
        name = r.choice(SMALL)
        source = {"kind": "file", "path": _source_path(name)}
        sid = name
    elif k < 0.85 or _source_path(BIG[0]) is None:
        apk, member = r.choice(APK_DEX)
        source = {"kind": "file", "path": os.path.join(core.CORPUS_DIR, "apk", apk), "member": member}
        sid = apk + "!" + member
    else:
        name = r.choice(BIG)
        source = {"kind": "file", "path": _source_path(name)}
        sid = name
    tl = _targets_of(source)
    allm = [("m", ci, mi) for ci, n in tl for mi in range(n)]
    allc = [("c", ci, -1) for ci, n in tl]
    if len(allm) > 120:
        allm = sorted(r.sample(allm, 120))
        allc = sorted(r.sample(allc, min(len(allc), 12)))
    canon = [["ms", ci, mi] for _, ci, mi in allm] + [["cs", ci] for _, ci, _ in allc]
    # one recursion limit for ALL processes of the group (the property does not promise equal output under different limits,
    # but under one limit deep methods must fail, or succeed, the same way whatever happened earlier in the process)
    rec_limit = r.choice([None, None, None, 400, 220, 90, 70, 60])
    # a third of the groups rename one class in the middle of every history (at a different point in each process): the texts
    # observed after the rename must not depend on what was decompiled before it
    rename = None
    if tl and r.random() < 0.33:
        rename = ["rn", r.choice(tl)[0], r.choice(["Lrenamed/Cls;", "Lr;", "La/b/c/Renamed$1;"])]
    cfgs = [{"hashseed": 0, "layout": 0, "gc": None, "prewarm": False, "xref": rename is None, "recursion_limit": rec_limit}]
    hist = [canon if rename is None else canon + [rename] + [list(o) for o in canon]]
    hr = core.rng(seed, "history")
    lr = core.rng(seed, "layout")
    for j in range(r.choice([3, 4, 5])):
        cfgs.append({"hashseed": core.rng(seed, "hash%d" % j).randrange(1, 2 ** 32 - 1), "layout": lr.getrandbits(48) + 1,
                     "gc": hr.choice([None, "off", "collect"]), "prewarm": hr.random() < 0.5, "xref": hr.random() < 0.7,
                     "ambient": {"time_base": 1.5e9 + hr.randrange(10 ** 8), "TZ": hr.choice(["UTC", "Asia/Tokyo", "America/New_York"]),
                                 "LANG": hr.choice(["C", "en_US.UTF-8", "tr_TR.UTF-8"]), "LC_ALL": hr.choice(["", "C", "C.UTF-8"]),
                                 "cwd": "/dev/shm/verif-c22-cwd/%d" % hr.randrange(4),
                                 "clock_step": hr.choice([1e-6, 0.0137, 0.9, 7.0, 3600.0]),
                                 "PYTHONUTF8": hr.choice(["", "1", "0"]), "PYTHONCOERCECLOCALE": hr.choice(["", "0"])},
                     "recursion_limit": rec_limit,
                     "prior_source": ({"kind": "file", "path": _source_path(hr.choice(SMALL))} if hr.random() < 0.3 else None)})
        ops = [list(o) for o in canon]
        hr.shuffle(ops)
        extra = []
        for o in ops:
            c = hr.random()
            if c < 0.15:
                extra.append(["ma", o[1], o[2]] if o[0] == "ms" else ["ca", o[1]])   # AST request first ("earlier work")
            if c > 0.85:
                extra.append(list(o))                                               # same target twice
            extra.append(o)
        if hr.random() < 0.3:
            extra = extra[len(extra) // 2:] + extra[:len(extra) // 2]
        if rename is not None:
            post = [list(o) for o in canon]
            hr.shuffle(post)
            pre = extra[:hr.choice([0, 0, 1, 2, len(extra) // 2, len(extra)])]
            extra = pre + [rename] + post
        hist.append(extra)
    return {"seed": seed, "source": source, "sid": sid, "cfgs": cfgs, "hist": hist}


def _norm_decl(text):
    out, run = [], []
    for line in text.split("\n"):
        if DECL.match(line):
            run.append(line)
        else:
            out += sorted(run)
            run = []
            out.append(line)
    return "\n".join(out + sorted(run))


def diff_class(a, b):
    if a.startswith("EXC:") or b.startswith("EXC:"):
        return "exc-flaky"
    if _norm_decl(a) == _norm_decl(b):
        return "decl-order"
    return "structure"


def _target_name(source, tgt):
    core.use_repo()
    from androguard.core.dex import DEX
    from gen.source import load_raw
    raw = load_raw(source)
    d = DEX(raw)
    c = list(d.get_classes())[tgt[1]]
    if tgt[0] in "cC":
        return str(c.get_name()) + (":after-rename" if tgt[0] == "C" else "")
    m = list(c.get_methods())[tgt[2]]
    return "%s->%s%s" % (c.get_name(), m.get_name(), str(m.get_descriptor()).replace(" ", "")) + (":after-rename" if tgt[0] == "M" else "")


def execute(group):
    log = core.EventLog()
    seen = {}        # target -> {digest: (cfg index, op index)}
    hash_calls = []
    units = 0
    for j, (cfg, ops) in enumerate(zip(group["cfgs"], group["hist"])):
        res = run_child(group["source"], cfg, ops)
        units += len(ops)
        hash_calls.append(res["stats"]["hash_calls"])
        log.add(j, "process", [cfg, len(ops), core.digest_of(res["results"])])
        for opi, tgt, h in res["results"]:
            seen.setdefault(tuple(tgt), {}).setdefault(h, (j, opi))
    problems = {}
    variants = 0
    differing = [t for t in sorted(seen) if len(seen[t]) >= 2]
    variants = len(differing)
    # texts are fetched for at most MAX_DIAGNOSED differing targets per group, one extra child per involved process
    # (a change that makes every constructor differ would otherwise cost two children per target)
    MAX_DIAGNOSED = 4
    chosen = differing[:MAX_DIAGNOSED]
    need = {}
    pairs = {}
    for tgt in chosen:
        items = sorted(seen[tgt].items(), key=lambda kv: kv[1])
        (ha, (ja, oa)), (hb, (jb, ob)) = items[0], items[1]
        pairs[tgt] = (ha, ja, hb, jb)
        need.setdefault(ja, []).append(tgt)
        need.setdefault(jb, []).append(tgt)
    texts = {}
    for j, tgts in sorted(need.items()):
        got = run_child(group["source"], group["cfgs"][j], group["hist"][j], want_text=tgts)["texts"]
        for tgt in tgts:
            texts[(j, tgt)] = got.get("%s:%d:%d" % tgt, "")
    for tgt in chosen:
        ha, ja, hb, jb = pairs[tgt]
        cls = diff_class(texts[(ja, tgt)], texts[(jb, tgt)])
        if group["source"]["kind"] == "file":
            sig = f"C22:{cls}:{group['sid']}:{_target_name(group['source'], tgt)}"
        else:
            sig = f"C22:{cls}:generated" + (":after-rename" if tgt[0] in "MC" else "")
        if sig not in problems:
            problems[sig] = {"msg": f"target {tgt} ({_target_name(group['source'], tgt)}) has {len(seen[tgt])} different texts: "
                                    f"process {ja} -> {ha}, process {jb} -> {hb}"
                                    + (f" ({variants} targets of this group differ)" if variants > 1 else ""),
                             "target": list(tgt), "a": ja, "b": jb, "ha": ha, "hb": hb}
    log.add("group", "variants", variants)
    return {"problems": [(s, p["msg"]) for s, p in sorted(problems.items())], "detail": problems,
            "digest": log.digest(), "probes": {"identity-hash-consulted": sum(hash_calls),
                                               "targets-with-more-than-one-text": variants,
                                               "groups-with-a-class-rename-in-mid-history": int(any(o[0] == "rn" for o in group["hist"][0])),
                                               "targets-observed-after-the-rename": sum(1 for t in seen if t[0] in "MC")},
            "units": units, "nontrivial": all(h > 0 for h in hash_calls[1:]) and len(hash_calls) > 1,
            "log": log.events,
            "extra": {"processes": len(group["cfgs"]), "targets": len(seen), "sources": [group["sid"]]}}


def worker(seed):
    group = draw_group(seed)
    out = execute(group)
    out.pop("log")
    detail = out.pop("detail")
    out["faults"] = {}
    out["sample"] = None
    if seed % 7 == 0:
        out["sample"] = {"seed": seed, "source": group["sid"], "processes": group["cfgs"],
                         "history_of_process_1": group["hist"][1][:10], "targets": out["extra"]["targets"],
                         "verdict": [s for s, _ in out["problems"]] or "held"}
    out["case"] = {"group": group, "detail": detail} if out["problems"] else None
    return out


def digest_for_index(base, i):
    out = worker(core.derive_seed(PROP, base, i))
    return out["digest"] + ":" + ",".join(sorted(s for s, _ in out["problems"]))


def _pair_differs(source, cfg_a, ops_a, cfg_b, ops_b, tgt):
    ra = {tuple(t): h for _, t, h in run_child(source, cfg_a, ops_a)["results"]}
    rb_all = run_child(source, cfg_b, ops_b)["results"]
    hb = {h for _, t, h in rb_all if tuple(t) == tuple(tgt)}
    ha = ra.get(tuple(tgt))
    return ha is not None and bool(hb) and (hb != {ha}), ha, sorted(hb)


def _with_request(ops, op, tgt):
    """ops, with the request for the target present in the right epoch (after the rename for targets 'M' / 'C')"""
    if tgt[0] in "MC":
        k = next((i for i, o in enumerate(ops) if o[0] == "rn"), None)
        if k is None or op in ops[k + 1:]:
            return ops
        return ops + [op]
    k = next((i for i, o in enumerate(ops) if o[0] == "rn"), len(ops))
    if op in ops[:k]:
        return ops
    return ops[:k] + [op] + ops[k:]


def minimise(case, sig):
    group, d = case["group"], case["detail"][sig]
    tgt = tuple(d["target"])
    source = group["source"]
    ja, jb = d["a"], d["b"]
    cfg_a, cfg_b = group["cfgs"][ja], group["cfgs"][jb]
    op = ["ms", tgt[1], tgt[2]] if tgt[0] in "mM" else ["cs", tgt[1]]
    ops_a, ops_b = group["hist"][ja], group["hist"][jb]
    tests = 0
    alone = [op]
    if tgt[0] in "MC":
        alone = [o for o in ops_b if o[0] == "rn"][:1] + [op]      # the request alone, after the rename
    # 1. shortest histories: the single request alone
    for cand_a, cand_b in ((alone, alone), (alone, ops_b), (ops_a, alone)):
        tests += 1
        ok, _, _ = _pair_differs(source, cfg_a, cand_a, cfg_b, cand_b, tgt)
        if ok:
            ops_a, ops_b = cand_a, cand_b
            break
    else:
        # 2. delta-debug the longer history of the differing process
        def fails(sub):
            nonlocal tests
            tests += 1
            sub = _with_request(sub, op, tgt)
            return _pair_differs(source, cfg_a, ops_a, cfg_b, sub, tgt)[0]
        ops_b = _with_request(core.ddmin(ops_b, fails, max_tests=40), op, tgt)
    # 3. generated sources: keep only the target's class
    if source["kind"] == "gen" and len(source["model"]["classes"]) > 1 and all(o[1] == tgt[1] for o in ops_a + ops_b):
        m2 = {"classes": [source["model"]["classes"][tgt[1]]], "strings_extra": []}
        s2 = {"kind": "gen", "model": m2}
        t2 = (tgt[0], 0, tgt[2])
        oa = [[o[0], 0] + o[2:] for o in ops_a]
        ob = [[o[0], 0] + o[2:] for o in ops_b]      # (a rename of another class blocks this step through the all() above)
        tests += 1
        if _pair_differs(s2, cfg_a, oa, cfg_b, ob, t2)[0]:
            source, tgt, ops_a, ops_b = s2, t2, oa, ob
    return {"source": source, "sid": group["sid"], "target": list(tgt), "cfg_a": cfg_a, "ops_a": ops_a,
            "cfg_b": cfg_b, "ops_b": ops_b, "seed": group["seed"]}, {"shrink_runs": tests,
                                                                    "from_history": len(group["hist"][jb])}


def write_replay(case, sig, msg, info):
    if "group" in case:           # un-minimised fallback
        d = case["detail"][sig]
        g = case["group"]
        case = {"source": g["source"], "sid": g["sid"], "target": d["target"], "cfg_a": g["cfgs"][d["a"]],
                "ops_a": g["hist"][d["a"]], "cfg_b": g["cfgs"][d["b"]], "ops_b": g["hist"][d["b"]], "seed": g["seed"]}
    tgt = tuple(case["target"])
    ok, ha, hb = _pair_differs(case["source"], case["cfg_a"], case["ops_a"], case["cfg_b"], case["ops_b"], tgt)
    if not ok:
        return None
    ta = run_child(case["source"], case["cfg_a"], case["ops_a"], want_text=[tgt])["texts"]["%s:%d:%d" % tgt]
    tb = run_child(case["source"], case["cfg_b"], case["ops_b"], want_text=[tgt])["texts"]["%s:%d:%d" % tgt]
    payload = {"property": PROP, "engine": "ndsim", "seed": case["seed"], "config": {"a": case["cfg_a"], "b": case["cfg_b"]},
               "source": case["source"], "sid": case["sid"], "target": list(tgt),
               "ops": {"a": case["ops_a"], "b": case["ops_b"]}, "decisions": [], "faults": [],
               "violation": {"class": sig.split(":")[1], "signature": sig, "message": msg},
               "digest": core.digest_of([ha, hb]), "text_a": ta, "text_b": tb, "minimised_from": info}
    name = "%s-%016x" % (re.sub(r"[^A-Za-z0-9_.-]", "_", sig)[:120], case["seed"])
    return core.write_replay(PROP, name, payload)


def evidence_extra(agg):
    return {"simulated_processes": agg["extra"].get("processes", 0), "targets_compared": agg["extra"].get("targets", 0),
            "sources": sorted(agg["extra"].get("sources", []))}


def run(tier):
    return driver.explore(__import__("checks.c22", fromlist=["x"]), tier)


def replay(path):
    def rerun(rp):
        tgt = tuple(rp["target"])
        ok, ha, hb = _pair_differs(rp["source"], rp["config"]["a"], rp["ops"]["a"], rp["config"]["b"], rp["ops"]["b"], tgt)
        sigs = {rp["violation"]["signature"]} if ok else set()
        return sigs, core.digest_of([ha, hb]), [f"process a -> {ha}; process b -> {hb}"]
    return driver.replay_common(__import__("checks.c22", fromlist=["x"]), path, rerun)
