"""C35 -- parsers terminate on every input (DESIGN.md 4.5).

Engine iosim: storage faults on the parser's byte store (EOF at any point, altered bytes, oversized counts, removed
terminators, offsets into appended junk); liveness = a step budget on a virtual clock instead of wall time.
"""
from __future__ import annotations

import glob
import io
import json
import os
import select
import signal
import time
import struct
import zipfile

from simkit import core, driver, iosim
from simkit.core import HarnessError

PROP = "C35"
LEVEL = "exploration"
TIERS = {"quick": dict(runs=480, wall=1400, chunk=6), "thorough": dict(runs=30000, wall=5400, chunk=12)}
CASES_PER_RUN = 60
TIME_UNIT = "steps (sys.monitoring LINE events in androguard/ and apkInspector/ code + stream operations)"
RULE = ("one evaluation = one parse of a faulted store (1-3 seeded storage faults on a valid DEX / AXML / ARSC / APK file) "
        "by the entry point the property names, under the step clock; distinct = distinct (file, fault list, outcome, steps) "
        "digests; non-trivial = every fault of the case touches a byte that the parse of the pristine file consumed "
        "(placed by the recorded read map) or cuts the file inside that range")
COMPONENTS = {"real": ["androguard.core.dex.DEX", "androguard.core.axml.AXMLPrinter", "androguard.core.axml.ARSCParser",
                       "androguard.core.apk.APK(raw=True)", "apkInspector", "zlib"],
              "stub": ["byte store behind io.BytesIO / io.BufferedReader (recording subclasses)", "wall clock -> step clock"]}
ASSUMPTIONS = ["androguard parses an immutable in-memory copy, so storage faults are applied before the parse starts",
               "time spent inside C code (zlib, struct, bytes methods) is not counted by the step clock; a real-time/RLIMIT_AS "
               "watchdog backs it up and can only make a run inconclusive, never a violation",
               "B(n) = min(500 n + 2e6, 4e7) steps only flags a run; the verdict comes from the extension window "
               "(no stream progress and a frame that never returned)"]

_FILES = None


def corpus_files():
    """[(kind, name, bytes)] -- valid inputs <= 64 KB"""
    global _FILES
    if _FILES is not None:
        return _FILES
    out = []
    for p in sorted(glob.glob(os.path.join(core.CORPUS_DIR, "dex", "*.dex"))):
        out.append(("dex", os.path.basename(p), open(p, "rb").read()))
    for p in sorted(glob.glob(os.path.join(core.CORPUS_DIR, "axml", "*.xml"))):
        out.append(("axml", os.path.basename(p), open(p, "rb").read()))
    for p in sorted(glob.glob(os.path.join(core.CORPUS_DIR, "apk", "*.apk"))):
        raw = open(p, "rb").read()
        if len(raw) <= 65536:
            out.append(("apk", os.path.basename(p), raw))
        try:
            with zipfile.ZipFile(p) as z:
                if "resources.arsc" in z.namelist():
                    a = z.read("resources.arsc")
                    if len(a) <= 65536:
                        out.append(("arsc", os.path.basename(p) + "!resources.arsc", a))
                if "AndroidManifest.xml" in z.namelist():
                    out.append(("axml", os.path.basename(p) + "!AndroidManifest.xml", z.read("AndroidManifest.xml")))
        except zipfile.BadZipFile:
            pass
    _FILES = [f for f in out if len(f[2]) <= 65536]
    return _FILES


# --------------------------------------------------------------------------
# faults
# --------------------------------------------------------------------------

def apply_faults(data: bytes, faults) -> bytes:
    b = bytearray(data)
    for f in faults:
        k = f[0]
        if k == "trunc":
            del b[f[1]:]
        elif k == "set":
            off, val = f[1], bytes.fromhex(f[2])
            if off < len(b):
                b[off:off + len(val)] = val[:max(0, len(b) - off)] if off + len(val) > len(b) else val
        elif k == "pad":
            b += bytes.fromhex(f[1])
        elif k == "adler":
            if len(b) >= 12:
                import zlib
                b[8:12] = struct.pack("<I", zlib.adler32(bytes(b[12:])) & 0xFFFFFFFF)
        else:
            raise HarnessError(f"unknown fault {f!r}")
    return bytes(b)


def draw_faults(r, kind, data, readmap):
    """readmap: [(pos, width)] of the pristine parse (primary stream), widths 1..8"""
    n = len(data)
    faults = []
    kinds = []
    padlen = 0
    ints = [rw for rw in readmap if rw[1] in (1, 2, 4, 8)]
    # byte ranges the pristine parse consumed in bulk (strings, code, payloads): gaps between the small reads
    blobs = []
    prev = 0
    for pos, w in readmap:
        if pos - prev >= 8:
            blobs.append((prev, pos))
        prev = max(prev, pos + w)
    if n - prev >= 8:
        blobs.append((prev, n))
    cur_len = [n]           # length of the store after the faults drawn so far
    for _ in range(r.choice([1, 1, 1, 2, 2, 3])):
        c = r.random()
        if c < 0.22:
            if readmap and r.random() < 0.7:
                pos, w = r.choice(readmap)
                cut = max(0, min(n, pos + r.choice([-1, 0, 1, w - 1, w, w + 1])))
            else:
                cut = r.randrange(n + 1)
            faults.append(["trunc", cut])
            kinds.append("eof")
            n = min(n, cut)
            cur_len[0] = min(cur_len[0], cut)
        elif c < 0.55:
            if ints and r.random() < 0.8:
                pos, w = r.choice(ints)
                bv = r.choice([0, 1, 0x7F, 0x80, 0xFF, (1 << (8 * w - 1)) - 1, 1 << (8 * w - 1), (1 << (8 * w)) - 1,
                               len(data), len(data) - 1, len(data) + 1, r.getrandbits(8 * w)]) & ((1 << (8 * w)) - 1)
                faults.append(["set", pos, bv.to_bytes(w, "little").hex()])
            else:
                pos = r.randrange(max(1, len(data)))
                faults.append(["set", pos, bytes(r.getrandbits(8) for _ in range(r.randint(1, 8))).hex()])
            kinds.append("flip")
        elif c < 0.72:
            sub = r.random()
            if sub < 0.4 and ints:
                cand = [rw for rw in ints if rw[1] == 4] or ints
                pos, w = r.choice(cand)
                if r.random() < 0.45:
                    # a declared count / size that makes the structure end exactly at (or one unit beyond) the end of the store
                    unit = r.choice([1, 2, 2, 4, 8, 12, 16])
                    v = max(0, (cur_len[0] - (pos + w)) // unit + r.choice([0, 0, 0, 1, -1]))
                    v &= (1 << (8 * w)) - 1
                    kinds.append("grow-count-to-exact-eof")
                else:
                    v = r.choice([0x7FFFFFFF, 0xFFFFFFFF, 0x10000000, 0x00FFFFFF, 0x80000000]) & ((1 << (8 * w)) - 1)
                    kinds.append("grow-count")
                faults.append(["set", pos, v.to_bytes(w, "little").hex()])
            elif sub < 0.6:
                ones = [rw for rw in readmap if rw[1] == 1]
                pos = r.choice(ones)[0] if ones else r.randrange(max(1, len(data)))
                faults.append(["set", pos, "ffffffff0f"])
                kinds.append("grow-uleb")
            elif sub < 0.85:
                zeros = [i for i in range(max(0, len(data) - 4096), len(data)) if data[i] == 0] if r.random() < 0.5 else \
                    [i for i in range(len(data)) if data[i] == 0][:4096]
                if zeros:
                    start = r.choice(zeros)
                    span = r.choice([1, 1, 4, 64, 100000])
                    for i in zeros:
                        if start <= i < start + span:
                            faults.append(["set", i, "41"])
                    kinds.append("unterminate")
            else:
                cand = [rw for rw in ints if rw[1] == 4]
                if cand:
                    pos, w = r.choice(cand)
                    tgt = r.choice([len(data), len(data) - 1, pos, max(0, pos - 4)])
                    faults.append(["set", pos, struct.pack("<I", tgt & 0xFFFFFFFF).hex()])
                    kinds.append("offset-to-eof-or-self")
        elif c < 0.80 and ints:
            # composite: a declared count made huge AND every terminator in the tail of the file removed (each harmless alone:
            # the huge count normally ends at EOF with an error, the unterminated string normally just ends at EOF)
            cand = [rw for rw in ints if rw[1] == 4] or ints
            pos, w = r.choice(cand)
            v = r.choice([0xFFFFFFFF, 0x7FFFFFFF, 0x00FFFFFF]) & ((1 << (8 * w)) - 1)
            faults.append(["set", pos, v.to_bytes(w, "little").hex()])
            cut = r.choice([len(data) // 2, (3 * len(data)) // 4, max(0, len(data) - 64), max(0, len(data) - 16)])
            for i in range(cut, len(data)):
                if data[i] == 0 and not (pos <= i < pos + w):
                    faults.append(["set", i, "41"])
            kinds.append("grow-count+unterminated-tail")
        elif c < 0.84 and blobs:
            # one character of a bulk-read region (string pool, string data) replaced by a character that quoting,
            # escaping or markup code treats specially
            lo, hi = r.choice(blobs)
            pos = r.randrange(lo, hi)
            ch = r.choice([0x27, 0x22, 0x5C, 0x7F, 0x00, 0x0A, 0x3C, 0x26, 0xFF, 0x25, 0x7B])
            faults.append(["set", pos, "%02x" % ch])
            kinds.append("special-char-in-blob")
        elif c < 0.88 and blobs:
            # a broken multi-byte sequence in a bulk-read region (MUTF-8 / UTF-8 / UTF-16 string data): lead bytes without
            # their continuation, lone continuation bytes, surrogate halves -- mostly right in front of a terminator, where a
            # sequence that was cut off would end
            lo, hi = r.choice(blobs)
            seq = bytes.fromhex(r.choice(["e0c0", "efef", "e0", "c0", "80", "eda080", "edb080", "f09f", "e080", "c080c0", "e0e0e0",
                                          "ff", "e1c1", "00d8", "00dc00dc", "d800", "c1bf"]))
            zeros = [i for i in range(lo + len(seq), hi) if data[i] == 0]
            if zeros and r.random() < 0.65:
                pos = r.choice(zeros[:2048]) - len(seq)
            else:
                pos = r.randrange(lo, max(lo + 1, hi - len(seq)))
            faults.append(["set", pos, seq.hex()])
            kinds.append("broken-multibyte-in-blob")
        else:
            padlen = r.choice([1, 2, 3, 8, 16, 64, 300])
            junk = bytes(r.randrange(1, 256) for _ in range(padlen))
            faults.append(["pad", junk.hex()])
            kinds.append("pad")
            cur_len[0] += padlen
            cand = [rw for rw in ints if rw[1] == 4]
            if cand and r.random() < 0.7:
                pos, w = r.choice(cand)
                faults.append(["set", pos, struct.pack("<I", (len(data) + r.randrange(padlen)) & 0xFFFFFFFF).hex()])
                kinds.append("offset-into-pad")
    if kind == "dex" and r.random() < 0.85:
        faults.append(["adler"])
    return faults, kinds


# --------------------------------------------------------------------------
# pristine run: read map and baseline steps
# --------------------------------------------------------------------------

_PRISTINE = {}


def pristine(kind, name, data, allow_rejected=False):
    key = (kind, name)
    if key in _PRISTINE:
        return _PRISTINE[key]
    res = iosim.parse(kind, data, keep_log=True, real_timeout=iosim.REAL_TIME_LIMIT_S)
    if res["outcome"] != "ok" and not allow_rejected:
        _PRISTINE[key] = None
        return None
    readmap = sorted({(pos, got) for sid, pos, asked, got in res["log"] if sid == 1 and 0 < got <= 8})
    consumed = res["maps"][0] if res["maps"] else bytearray(len(data))
    _PRISTINE[key] = {"readmap": readmap, "steps": res["steps"], "consumed": bytes(consumed), "outcome": res["outcome"],
                      "where": res["where"], "owner": res["owner"], "budget": res["budget"]}
    return _PRISTINE[key]


def _touches(faults, consumed, n):
    ok = True
    any_fault = False
    for f in faults:
        if f[0] == "trunc":
            any_fault = True
            last = consumed.rfind(b"\x01")
            ok &= f[1] <= last
        elif f[0] == "set":
            any_fault = True
            ok &= f[1] < len(consumed) and consumed[f[1]] == 1
        elif f[0] == "pad":
            any_fault = True
    return ok and any_fault


def run_case(kind, name, data, faults, src=None):
    store = store_for(src, data, faults) if src else apply_faults(data, faults)
    res = iosim.parse(kind, store, real_timeout=iosim.REAL_TIME_LIMIT_S)
    return res


class _Archive:
    def __init__(self, raw):
        self.entries = []
        with zipfile.ZipFile(io.BytesIO(raw)) as z:
            for zi in z.infolist():
                self.entries.append((zi, z.read(zi.filename)))

    def names(self):
        return [zi.filename for zi, _ in self.entries]

    def get(self, name):
        for zi, d in self.entries:
            if zi.filename == name:
                return d
        raise KeyError(name)

    def rebuild(self, name, data2):
        out = io.BytesIO()
        with zipfile.ZipFile(out, "w") as z:
            for zi, data in self.entries:
                z.writestr(zi, data2 if zi.filename == name else data, compress_type=zi.compress_type)
        return out.getvalue()


_ARCHIVES = {}


def _archive(name):
    if name not in _ARCHIVES:
        for k, nme, d in corpus_files():
            if (k, nme) == ("apk", name):
                _ARCHIVES[name] = _Archive(d)
                break
        else:
            raise HarnessError("corpus apk missing: " + name)
    return _ARCHIVES[name]


def store_for(src, data, faults):
    """the bytes handed to the parser: faults applied to the file, or to one archive entry followed by a re-write"""
    if src["kind"] == "apk-entry":
        ar = _archive(src["name"])
        return ar.rebuild(src["entry"], apply_faults(ar.get(src["entry"]), faults))
    return apply_faults(data, faults)


def _source_bytes(src):
    if src["kind"] == "gen-apk":
        from gen import axmlasm
        out = io.BytesIO()
        with zipfile.ZipFile(out, "w", zipfile.ZIP_DEFLATED) as z:
            z.writestr("AndroidManifest.xml", axmlasm.assemble(src["doc"]))
            if src.get("table"):
                from gen import arscasm
                z.writestr("resources.arsc", arscasm.assemble(src["table"]))
            z.writestr("classes.dex", b"")
        return out.getvalue()
    if src["kind"] == "gen-arsc":
        from gen import arscasm
        return arscasm.assemble(src["table"])
    if src["kind"] == "gen-axml":
        from gen import axmlasm
        return axmlasm.assemble(src["doc"])
    if src["kind"] == "apk-entry":
        return _archive(src["name"]).get(src["entry"])
    if src["kind"] == "corpus":
        for k, nme, d in corpus_files():
            if (k, nme) == (src["parser"], src["name"]):
                return d
        raise HarnessError("corpus file missing: %r" % (src,))
    from gen import dexasm
    raw, _ = dexasm.assemble(src["model"])
    return raw


_PROGRESS_FD = [None]
_FOUND = []        # violation signatures found by this worker process so far


def _worker_inproc(seed):
    core.use_repo()
    import resource
    try:
        resource.setrlimit(resource.RLIMIT_AS, (6 << 30, 6 << 30))
    except (ValueError, OSError):
        pass
    r = core.rng(seed, "workload")
    files = corpus_files()
    pick = r.random()
    if pick < 0.2:
        from gen import dexasm, models
        model = r.choice([models.xref_model, models.share_model, models.structured_model])(r)
        raw, _ = dexasm.assemble(model)
        kind, name, data = "dex", "generated", raw
        src = {"kind": "gen", "parser": "dex", "name": "generated", "model": model}
    elif pick < 0.35:
        # crafted binary-XML documents: adversarial element / attribute / prefix names (gen/axmlasm.py)
        from gen import axmlasm
        doc = axmlasm.random_doc(r)
        kind, name, data = "axml", "generated", axmlasm.assemble(doc)
        src = {"kind": "gen-axml", "parser": "axml", "name": "generated", "doc": doc}
    elif pick < 0.42:
        # a generated manifest (boundary values in uses-sdk / version attributes) inside a minimal archive, through APK(raw=True)
        from gen import axmlasm
        doc = axmlasm.manifest_doc(r)
        kind, name = "apk", "generated"
        src = {"kind": "gen-apk", "parser": "apk", "name": "generated", "doc": doc}
        data = _source_bytes(src)
    elif pick < 0.48:
        # two cooperating generated files in one archive: a resource table whose strings name other string resources (chains,
        # cycles, missing targets) and a manifest whose <permission> attributes name them in plain text
        from gen import arscasm, axmlasm
        table = arscasm.random_table(r)
        names = [e["key"] for t in table["types"] if t["name"] == "string" for e in t["entries"] if e]
        doc = axmlasm.manifest_doc(r, string_names=names)
        kind, name = "apk", "generated"
        src = {"kind": "gen-apk", "parser": "apk", "name": "generated", "doc": doc, "table": table}
        data = _source_bytes(src)
    elif pick < 0.52:
        # a generated resource table on its own (storage faults on top)
        from gen import arscasm
        table = arscasm.random_table(r)
        kind, name = "arsc", "generated"
        src = {"kind": "gen-arsc", "parser": "arsc", "name": "generated", "table": table}
        data = _source_bytes(src)
    else:
        kind, name, data = r.choice(files)
        src = {"kind": "corpus", "parser": kind, "name": name}
        if kind == "apk" and r.random() < 0.6:
            # storage fault inside an archive entry (manifest / resource table / dex), archive re-written:
            # drives the binary-XML and resource parsers through the APK entry point
            ar = _archive(name)
            cand = [n for n in ar.names() if n in ("AndroidManifest.xml", "resources.arsc", "classes.dex")]
            if cand:
                entry = r.choice(cand)
                src = {"kind": "apk-entry", "parser": "apk", "name": name, "entry": entry}
    inner = None
    if src["kind"] == "apk-entry":
        # the read map comes from parsing the entry on its own with its own parser
        ek = {"AndroidManifest.xml": "axml", "resources.arsc": "arsc", "classes.dex": "dex"}[src["entry"]]
        inner = (ek, name + "!" + src["entry"], _archive(name).get(src["entry"]))
    if inner:
        p = pristine(inner[0], inner[1], inner[2])
        data = inner[2]
    else:
        p = pristine(kind, name + (":%x" % seed if name == "generated" else ""), data, allow_rejected=(src["kind"] in ("gen-axml", "gen-apk")))
    skipped = {}
    if p is None:
        return {"problems": [], "digest": core.digest_of([name, "pristine-not-ok"]), "probes": {}, "faults": {}, "units": 0,
                "nontrivial": False, "sample": None, "case": None, "cases": 0, "skipped": {"pristine-parse-not-ok:" + name: 1},
                "extra": {}}
    fr = core.rng(seed, "faults")
    problems = {}
    probes = {}
    fired = {}
    units = 0
    if len(_FOUND) >= 3:
        # this worker process has already produced several non-termination cases: do not spend its time on more of them
        return {"problems": [], "digest": core.digest_of([seed, "skipped"]), "probes": {"batch-skipped-after-violations-in-this-worker": 1},
                "faults": {}, "units": 0, "nontrivial": False, "sample": None, "case": None, "cases": 0, "skipped": {}, "extra": {}}
    if src["kind"] in ("gen-axml", "gen-apk"):
        # the crafted document itself is a case (no storage fault on top)
        fired["crafted-document"] = 1
        if p["outcome"] in ("loop", "native-stall"):
            sig = f"C35:{kind}:native-stall" if p["outcome"] == "native-stall" else f"C35:{kind}:{p['owner']}"
            problems[sig] = {"msg": f"{kind} parser did not terminate on a crafted document (no fault on top): {p['outcome']} in {p['where']}",
                             "faults": []}
    case_digests, nontrivial = [], []
    outcomes = {}
    sample = None
    max_ratio = 0.0
    for ci in range(CASES_PER_RUN):
        faults, kinds = draw_faults(fr, inner[0] if inner else kind, data, p["readmap"])
        if _PROGRESS_FD[0] is not None:
            # tell the supervisor which case is about to run (so that a stall in native code can be attributed)
            os.write(_PROGRESS_FD[0], json.dumps({"i": ci, "src": src, "faults": faults}).encode() + b"\n")
        res = run_case(kind, name, data, faults, src)
        if inner:
            kinds = ["entry:" + k for k in kinds]
        units += res["steps"]
        for k in kinds:
            fired[k] = fired.get(k, 0) + 1
        oc = res["outcome"]
        ocl = oc.split(":")[0]
        outcomes[ocl] = outcomes.get(ocl, 0) + 1
        if res["eof_reads"]:
            probes["read-served-short-or-empty-at-eof"] = probes.get("read-served-short-or-empty-at-eof", 0) + 1
        if res["flagged"]:
            probes["budget-flagged"] = probes.get("budget-flagged", 0) + 1
        n2 = max(1, len(data))
        max_ratio = max(max_ratio, res["steps"] / n2)
        # (the exact step count is not part of the digest: androguard's XML printer iterates hash-ordered containers, so the
        #  number of executed lines varies by a handful with the hash seed and the memory layout; the outcome does not)
        dg = core.digest_of([kind, name if name != "generated" else seed, faults, oc])
        case_digests.append(dg)
        if _touches(faults, p["consumed"], len(data)):
            nontrivial.append(dg)
        if len(problems) >= 2 or (problems and ci > 8):
            break             # non-terminating cases are expensive (budget + extension window / real-time limit): enough found
        if oc == "native-stall":
            sig = f"C35:{kind}:native-stall"
            if sig not in problems:
                problems[sig] = {"msg": f"{kind} parser did not return within {iosim.REAL_TIME_LIMIT_S:.0f} s of real time on {name} with "
                                        f"faults {faults} while the step clock stayed under its budget: the time is spent in native code "
                                        f"called from {res['where']}", "faults": faults}
        elif oc == "loop":
            sig = f"C35:{kind}:{res['owner']}"
            if sig not in problems:
                problems[sig] = {"msg": f"{kind} parser did not terminate on {name} with faults {faults}: no stream progress "
                                        f"for {res['budget']} steps, frame {res['where']} never returned",
                                 "faults": faults}
        elif oc == "inconclusive":
            skipped["inconclusive-still-consuming-after-20xB"] = skipped.get("inconclusive-still-consuming-after-20xB", 0) + 1
        if sample is None and oc.startswith("exc") and len(faults) <= 3 and seed % 5 == 0:
            sample = {"seed": seed, "parser": kind, "file": name, "faults": faults, "outcome": oc, "steps": res["steps"],
                      "pristine_steps": p["steps"], "bytes": len(data)}
    case = None
    if problems:
        case = {"seed": seed, "src": src, "by_sig": {s: v["faults"] for s, v in problems.items()}}
        _FOUND.extend(problems)
    probes.update({"outcome-" + k: v for k, v in outcomes.items()})
    return {"problems": [(s, v["msg"]) for s, v in sorted(problems.items())], "digest": core.digest_of(case_digests),
            "probes": probes, "faults": fired, "units": units, "nontrivial": False, "case_digests": case_digests,
            "nontrivial_digests": nontrivial, "cases": CASES_PER_RUN, "sample": sample, "case": case, "skipped": skipped,
            "extra": {"max_steps_per_input_byte_x1000": [int(max_ratio * 1000)]}}


BATCH_TIMEOUT_S = 240.0      # one batch normally takes 1-5 s
CASE_TIMEOUT_S = 20.0        # one parse of a <= 64 KB input normally takes milliseconds


def _in_child(fn, args, timeout, progress=False):
    """-> ("ok", result) | ("timeout", last progress record or None).  Child is killed on timeout."""
    import pickle
    r, w = os.pipe()
    pr, pw = os.pipe()
    pid = os.fork()
    if pid == 0:
        code = 0
        try:
            os.close(r)
            os.close(pr)
            if progress:
                _PROGRESS_FD[0] = pw
            try:
                out = ("ok", fn(*args))
            except HarnessError as e:
                out = ("harness", str(e))
            except BaseException:  # noqa
                import traceback
                out = ("harness", "unexpected: " + traceback.format_exc()[-800:])
            with os.fdopen(w, "wb") as f:
                pickle.dump(out, f, protocol=4)
        except BaseException:  # noqa
            code = 3
        finally:
            os._exit(code)
    os.close(w)
    os.close(pw)
    deadline = time.monotonic() + timeout
    chunks = []
    prog = b""
    done = False
    while True:
        left = deadline - time.monotonic()
        if left <= 0:
            break
        rl, _, _ = select.select([r, pr], [], [], min(left, 1.0))
        if pr in rl:
            d = os.read(pr, 65536)
            if d:
                prog = (prog + d)[-262144:]
        if r in rl:
            d = os.read(r, 1 << 20)
            if not d:
                done = True
                break
            chunks.append(d)
    if not done:
        try:
            os.kill(pid, signal.SIGKILL)
        except ProcessLookupError:
            pass
    os.waitpid(pid, 0)
    os.close(r)
    os.close(pr)
    if not done:
        last = None
        lines = [l for l in prog.split(b"\n") if l.strip()]
        if lines:
            try:
                last = json.loads(lines[-1])
            except ValueError:
                last = None
        return "timeout", last
    kind, out = pickle.loads(b"".join(chunks))
    if kind != "ok":
        raise HarnessError(out)
    return "ok", out


def _one_parse(src, faults):
    data = _source_bytes(src)
    res = iosim.parse(src["parser"], store_for(src, data, faults), real_timeout=None)
    return {k: res[k] for k in ("outcome", "steps", "where", "owner", "budget")}


def stalls_in_native_code(src, faults, timeout=CASE_TIMEOUT_S):
    """does this single parse fail to return within `timeout` seconds of real time although the step clock stays quiet?"""
    st, out = _in_child(_one_parse, (src, faults), timeout)
    return st == "timeout"


def worker(seed):
    return _worker_inproc(seed)


def digest_for_index(base, i):
    out = worker(core.derive_seed(PROP, base, i))
    return out["digest"] + ":" + ",".join(sorted(s for s, _ in out["problems"]))


def _sig_of(kind, data, faults, src=None):
    res = iosim.parse(kind, store_for(src, data, faults) if src else apply_faults(data, faults))
    if res["outcome"] == "loop":
        return f"C35:{kind}:{res['owner']}", res
    return None, res


def _sig_only(kind, data, faults, src):
    return _sig_of(kind, data, faults, src)[0]


def _sig_public(kind, data, faults, src):
    got, res = _sig_of(kind, data, faults, src)
    return got, {k: res[k] for k in ("where", "steps", "budget", "outcome")}


def minimise(case, sig):
    if sig.endswith(":native-stall"):
        faults = case["by_sig"][sig]
        tests = [0]

        def fails(sub):
            tests[0] += 1
            return stalls_in_native_code(case["src"], sub, timeout=15.0)
        tail = [f for f in faults if f[0] == "adler"]
        body = [f for f in faults if f[0] != "adler"]
        if len(body) > 1:
            body = core.ddmin(body, lambda s_: fails(s_ + tail), max_tests=8)
        return {"seed": case["seed"], "src": case["src"], "faults": body + tail, "sig": sig}, {"shrink_runs": tests[0]}
    src = case["src"]
    data = _source_bytes(src)
    kind = src["parser"]
    faults = case["by_sig"][sig]
    tests = [0]

    def fails(sub):
        tests[0] += 1
        return core.isolated(_sig_only, kind, data, sub, src) == sig

    tail = [f for f in faults if f[0] == "adler"]
    body = [f for f in faults if f[0] != "adler"]
    body = core.ddmin(body, lambda s: fails(s + tail), max_tests=120)
    return {"seed": case["seed"], "src": src, "faults": body + tail, "sig": sig}, \
        {"from_faults": len(faults), "shrink_runs": tests[0]}


def write_replay(case, sig, msg, info):
    if "by_sig" in case:
        case = {"seed": case["seed"], "src": case["src"], "faults": case["by_sig"][sig], "sig": sig}
    if sig.endswith(":native-stall"):
        if not stalls_in_native_code(case["src"], case["faults"]):
            return None
        payload = {"property": PROP, "engine": "iosim", "seed": case["seed"], "config": {"real_time_limit_s": CASE_TIMEOUT_S},
                   "source": case["src"], "faults": case["faults"], "ops": [["parse", case["src"]["parser"]]], "decisions": [],
                   "violation": {"class": "non-termination", "signature": sig, "message": msg},
                   "digest": core.digest_of([sig]), "clock": {"note": "real-time back-stop: native code is invisible to the step clock"},
                   "minimised_from": info}
        return core.write_replay(PROP, "%s-%016x" % (sig.replace(":", "_"), case["seed"]), payload)
    data = _source_bytes(case["src"])
    got, res = core.isolated(_sig_public, case["src"]["parser"], data, case["faults"], case["src"])
    if got != sig:
        return None
    payload = {"property": PROP, "engine": "iosim", "seed": case["seed"], "config": {"budget": res["budget"]},
               "source": case["src"], "faults": case["faults"], "ops": [["parse", case["src"]["parser"]]], "decisions": [],
               "violation": {"class": "non-termination", "signature": sig, "message": msg},
               "digest": core.digest_of([sig, res["where"]]),
               "clock": {"steps_at_stop": res["steps"], "budget": res["budget"], "loop_owner": res["where"]},
               "minimised_from": info}
    name = "%s-%016x" % (sig.replace(":", "_"), case["seed"])
    return core.write_replay(PROP, name, payload)


def evidence_extra(agg):
    r = agg["extra"].get("max_steps_per_input_byte_x1000", set())
    return {"parses": agg.get("cases", 0), "max_steps_per_input_byte": (max(r) / 1000.0) if r else None,
            "budget_rule": "B(n) = min(500 n + 2e6, 4e7) steps"}


def run(tier):
    return driver.explore(__import__("checks.c35", fromlist=["x"]), tier)


def replay(path):
    def rerun(rp):
        want = rp["violation"]["signature"]
        if want.endswith(":native-stall"):
            hit = stalls_in_native_code(rp["source"], rp["faults"])
            return ({want} if hit else set()), core.digest_of([want]), ["stalled in native code" if hit else "returned in time"]
        data = _source_bytes(rp["source"])
        got, res = _sig_of(rp["source"]["parser"], data, rp["faults"], rp["source"])
        return ({got} if got else set()), core.digest_of([got, res["where"]]), [f"outcome={res['outcome']} steps={res['steps']} owner={res['where']}"]
    return driver.replay_common(__import__("checks.c35", fromlist=["x"]), path, rerun)
