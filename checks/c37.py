"""C37 -- decompile output stays inside the output directory (DESIGN.md 4.8).

Engine fssim: the export command runs against an in-memory file system; every create / mkdir is an event; ENOSPC /
EACCES / EEXIST faults, pre-existing directory contents and a scripted stdin are part of the seeded environment.
"""
from __future__ import annotations

import builtins
import io
import os
import posixpath
import shutil
import sys

from simkit import core, driver, fssim
from simkit.core import HarnessError

PROP = "C37"
LEVEL = "exploration"
TIERS = {"quick": dict(runs=6000, wall=1400, chunk=60), "thorough": dict(runs=1000000, wall=5400, chunk=400)}
TIME_UNIT = "file-system events (mkdir / create / truncate / remove) -- no clock in the code under test"
RULE = ("one evaluation = one run of export_apps_to_format on a generated DEX with adversarial class and method names, in a "
        "seeded simulated environment (output directory form, pre-existing contents, scripted stdin, injected file-system "
        "errors); distinct = distinct event-log digests; non-trivial = at least one class or method name of the input contains "
        "a path-significant element ('..', '.', empty segment, '/', leading '/', over-long segment, back-slash, control "
        "character) and at least one file was created")
COMPONENTS = {"real": ["androguard.cli.main.export_apps_to_format / valid_class_name / create_directory",
                       "androguard.misc.clean_file_name", "androguard.core.androconf.rrmdir", "Session (in-memory SQLite)",
                       "DAD decompiler", "bytecode.method2format(raw)"],
              "stub": ["file system -> simkit.fssim.SimFS (names os, open, shutil, input rebound in androguard.cli.main, "
                       "androguard.misc, androguard.core.bytecode, androguard.core.androconf)", "stdin -> scripted answers"]}
ASSUMPTIONS = ["SimFS resolves paths component-wise like a POSIX kernel and has no symlinks",
               "only export_apps_to_format is driven (the CLI wrapper's ./androguard.db is not derived from the input)",
               "removals are logged but not judged: the statement is about what the command creates",
               "every minimised violation is re-run once against the real file system in a deep scratch directory"]

SEGS_BAD = ["..", ".", "", "~", "b x", "c\\d", "\x01z", "CON", "é", "x" * 260, "..", "...", " ", "a.", "-rf",
            "\u2025", "\uff0e\uff0e", "\u2024\u2024", "a\uff0fb", "\uff0e", "\u2025\uff0f\u2025",   # look-alikes of '..', '.', '/' (NFKC)
            # segments that pass an exact-match filter for '..' but BECOME '..' under a later clean-up step:
            # control characters removed, cut at '$', white space stripped, percent / back-slash decoding, case folding
            ".\x01.", "\x1f..", "..\x00", ".\x7f.", "..$Inner", "..$1", ".$x", " ..", ".. ", "..\t", "%2e%2e", "..\\..",
            "..\x00abc", "..;", ". .", "..\r"]
SEGS_OK = ["a", "b", "pkg", "Cls", "q"]
METH_BAD = ["../x", "a/../../x", "x/../../../../esc", "/abs", "..", "a/b", "CON", "m" * 300, "x\\..\\y", "a\x00b", ".", ""]
METH_OK = ["m", "run", "<init>", "get"]
OUTPUTS = ["out", "out/", "./out", "sub/dir/out", "/sim/abs/out", "out2/"]


def _has_bad(s):
    segs = s[1:-1].split("/") if s.endswith(";") else s.split("/")
    return any(x in ("..", ".", "") or len(x) > 255 or "\\" in x or any(ord(c) < 32 for c in x) for x in segs) or \
        s.startswith("L/")


def draw_case(seed):
    r = core.rng(seed, "workload")
    from gen import dexasm, models
    out_pick = core.rng(seed, "environment-output").choice(OUTPUTS)
    base = out_pick.rstrip("/").split("/")[-1]
    # siblings of the output directory whose names merely start with its name (string-prefix containment checks)
    global SEGS_BAD
    segs_bad = SEGS_BAD + [base + "-old", base + "put", base, base + "2"]
    classes = []
    used = set()
    style = r.random()
    if style < 0.12:
        # two cooperating sites: a directory created for one class gives a method name of another class a way up
        inner = r.choice(["b x", "k y", "Cls m"])
        base = inner.split(" ")[0]
        descs = ["La/%s;" % base, "La/%s/%s/q;" % (base, inner)]
        mnames = [[inner.split(" ")[1] + "/../../../../esc"], ["m"]]
        if r.random() < 0.5:
            descs.reverse()
            mnames.reverse()
    else:
        descs, mnames = [], []
        for _ in range(r.randint(1, 3)):
            nseg = r.randint(1, 4)
            segs = [r.choice(segs_bad) if r.random() < (0.5 if style < 0.8 else 0.0) else r.choice(SEGS_OK) for _ in range(nseg)]
            if style < 0.8 and r.random() < 0.08:
                segs = [".."] + [r.choice([base + "-old", base + "put", base])] + segs[:2]
            if segs.count("..") > 8:
                segs = segs[:8]
            if style < 0.8 and r.random() < 0.06:
                segs = [r.choice(["..", ".", ""]) for _ in range(r.randint(1, 4))]       # nothing but segments a filter drops
            d = "L" + ("/" if r.random() < 0.08 else "") + "/".join(segs) + (";" if r.random() < 0.93 else "")
            if d in used or d in ("L;", "L"):
                d = "Lu%d/%s;" % (len(used), "/".join(segs))
            used.add(d)
            descs.append(d)
            mnames.append([r.choice(METH_BAD) if r.random() < 0.35 else r.choice(METH_OK) for _ in range(r.randint(1, 3))])
    for d, ms in zip(descs, mnames):
        dm = []
        seen = set()
        if style >= 0.12 and r.random() < 0.15:
            ms = []          # a class without methods (marker interface, constants holder): nothing to decompile per method
        for m in ms:
            if m in seen:
                continue
            seen.add(m)
            dm.append({"name": m, "ret": "V", "params": [], "access": 9,
                       "code": {"regs": 1, "insns": [["const4", 0, 1], ["return-void"]], "tries": []}})
        src_file = None
        if r.random() < 0.25:
            src_file = r.choice(["A.java", "../x.java", "/abs/x.java", "a/../../x.java", "..", "x/y.java", "../../../../e.java",
                                 "A.kt", "", "\u2025/x.java", "..\\x.java"])
        classes.append({"desc": d, "access": 1, "super": models.OBJ, "interfaces": [], "source": src_file,
                        "sfields": [], "ifields": [], "dmethods": dm, "vmethods": []})
    model = {"classes": classes, "strings_extra": []}
    er = core.rng(seed, "environment")
    er.choice(OUTPUTS)
    env = {"output": out_pick, "form": er.choice([None, None, "raw"]),
           "filter": er.choice([None, None, None, "m", "esc|x"]),
           "preexisting": er.random() < 0.35, "pre_files": er.randint(0, 3),
           "answers": er.choice([["y"], ["n"], ["maybe", "y"], ["", "N"], []])}
    fr = core.rng(seed, "faults")
    faults = []
    if fr.random() < 0.35:
        for _ in range(fr.randint(1, 2)):
            faults.append([fr.randint(1, 30), fr.choice(["ENOSPC", "EACCES", "EEXIST"])])
    priors = []
    if er.random() < 0.2:
        # history: an earlier export in the same process (same class names, another output directory)
        priors.append({"output": er.choice([o for o in OUTPUTS if o.rstrip("/").lstrip("./") != env["output"].rstrip("/").lstrip("./")]),
                       "model": "same" if er.random() < 0.8 else "twin"})
    return {"seed": seed, "model": model, "env": env, "faults": faults, "priors": priors}


# --------------------------------------------------------------------------
# the seam
# --------------------------------------------------------------------------

_MODS = None
_REAL = {}


def _modules():
    global _MODS
    if _MODS is None:
        import androguard.cli.main as m1
        import androguard.core.androconf as m4
        import androguard.core.bytecode as m3
        import androguard.misc as m2
        _MODS = [m1, m2, m3, m4]
        for m in _MODS:
            _REAL[m] = {k: m.__dict__.get(k, None) for k in ("os", "open", "shutil", "input")}
    return _MODS


class _SimShutil:
    def __init__(self, fs):
        self.move, self.copy, self.copy2, self.copyfile, self.rmtree = fs.move, fs.copyfile, fs.copyfile, fs.copyfile, fs.rmtree

    def __getattr__(self, name):
        raise AttributeError("shutil.%s is not simulated" % name)


def install(fs, answers):
    simos = fssim.SimOS(fs)
    answers = list(answers)

    def sim_input(prompt=""):
        if not answers:
            raise EOFError("EOF when reading a line")
        return answers.pop(0)
    for m in _modules():
        if _REAL[m]["os"] is not None:
            m.os = simos
        m.open = fs.open
        if _REAL[m]["shutil"] is not None:
            m.shutil = _SimShutil(fs)
        m.input = sim_input


def uninstall():
    for m in _modules():
        for k, v in _REAL[m].items():
            if v is None:
                m.__dict__.pop(k, None)
            else:
                m.__dict__[k] = v


_DEVNULL = open(os.devnull, "w")


def _load_session(raw):
    from androguard.session import Session
    s = Session(db_url="sqlite://")
    s.addDEX("x.dex", raw)
    return s


def _export_once(fs, session, output, filt, form):
    import androguard.cli.main as M
    err = None
    try:
        M.export_apps_to_format("x.dex", session, output, filt, False, None, form)
    except HarnessError:
        raise
    except BaseException as e:   # noqa  -- the command may abort (EOF on stdin, injected error, bad name): allowed
        if isinstance(e, (KeyboardInterrupt, SystemExit)):
            raise
        err = e
    return err


_SANDBOX = [None]


def _real_sandbox():
    """A real, empty directory that is the process's cwd while the command runs: anything the code under test writes
    through an API the seam does not cover (pathlib, os.open, ...) lands here, is found afterwards and is judged too."""
    if _SANDBOX[0] is None:
        root = "/dev/shm" if os.path.isdir("/dev/shm") else "/var/tmp"
        _SANDBOX[0] = os.path.join(root, "verif-c37-cwd-%d" % os.getpid())
    d = _SANDBOX[0]
    shutil.rmtree(d, ignore_errors=True)
    os.makedirs(os.path.join(d, "cwd"))
    return d


def run_export(case, fs, precreate=()):
    """-> (error of the judged export, [(events, out_abs, tag)]).  Runs the real exporter against fs."""
    from gen import dexasm
    raw, _ = dexasm.assemble(case["model"])
    _modules()
    s = _load_session(raw)          # before the seam is installed: loading does not touch the simulated FS
    env = case["env"]
    out_abs = posixpath.normpath(posixpath.join(fs.cwd, env["output"]))
    if env["preexisting"] or precreate:
        fs._mk(fs._split(out_abs))
        for p in precreate:
            comps = fs._split(p)
            d = fs._mk(comps[:-1])
            if comps[-1] not in d:
                d[comps[-1]] = fssim.SimFile()
    fs.events.clear()
    fs.calls = 0
    fs.fault_plan = {}
    segments = []
    sandbox = _real_sandbox()
    old_cwd = os.getcwd()
    saved = sys.stdout
    sys.stdout = _DEVNULL
    undo = fssim.patch_tempfile_and_shutil(fs)
    os.chdir(os.path.join(sandbox, "cwd"))
    err = None
    try:
        for prior in case.get("priors") or []:
            if prior["model"] == "same":
                s0 = s
            elif prior["model"] == "twin":
                s0 = _load_session(dexasm.assemble(_benign_twin(case["model"]))[0])
            else:
                s0 = _load_session(dexasm.assemble(prior["model"])[0])
            install(fs, ["y", "y"])
            _export_once(fs, s0, prior["output"], None, None)
            p_abs = posixpath.normpath(posixpath.join(fs.cwd, prior["output"]))
            segments.append((list(fs.events), p_abs, "prior"))
            fs.events.clear()
            fs.calls = 0
        fs.fault_plan = {int(i): k for i, k in case["faults"]}
        install(fs, env["answers"])
        err = _export_once(fs, s, env["output"], env["filter"], env["form"])
        segments.append((list(fs.events), out_abs, "main"))
    finally:
        os.chdir(old_cwd)
        undo()
        sys.stdout = saved
        uninstall()
    # anything written to the real file system bypassed the seam: map it into the simulated name space and judge it too
    stray = []
    for dp, dn, fn in os.walk(sandbox):
        for f in fn:
            stray.append(("create", posixpath.normpath(posixpath.join(fs.cwd, os.path.relpath(os.path.join(dp, f), os.path.join(sandbox, "cwd"))))))
        for dd in dn:
            p = os.path.join(dp, dd)
            if p != os.path.join(sandbox, "cwd"):
                stray.append(("mkdir", posixpath.normpath(posixpath.join(fs.cwd, os.path.relpath(p, os.path.join(sandbox, "cwd"))))))
    shutil.rmtree(sandbox, ignore_errors=True)
    if stray:
        segments.append((stray, out_abs, "seam-bypassed"))
    return err, segments


def _benign_twin(model):
    """same class names, one harmless method each"""
    return {"classes": [dict(c, dmethods=[{"name": "m", "ret": "V", "params": [], "access": 9,
                                           "code": {"regs": 1, "insns": [["return-void"]], "tries": []}}]) for c in model["classes"]],
            "strings_extra": []}


def _inside(p, out_abs):
    return p == out_abs or p.startswith(out_abs.rstrip("/") + "/")


def judge(case, segments):
    problems = {}
    created = 0
    names_m = [m["name"] for c in case["model"]["classes"] for m in c["dmethods"]]
    for events, out_abs, tag in segments:
        for kind, p in events:
            if kind in ("remove", "rmdir"):
                continue
            created += 1
            if _inside(p, out_abs):
                continue
            if kind == "mkdir" and out_abs.startswith(p.rstrip("/") + "/"):
                continue      # an ancestor of the requested output directory (os.makedirs(output)): not derived from the input
            if kind == "mkdir":
                site = "makedirs"
            elif p.endswith(".java"):
                site = "open-java"
            elif p.endswith(".ag"):
                site = "open-ag"
            else:
                site = "open-other"
            if tag == "seam-bypassed":
                cause = "unseamed-api"
            elif p.startswith(fssim.SimFS.tmpdir + "/") or p == fssim.SimFS.tmpdir:
                cause = "temp-directory"
            elif case.get("priors") and tag == "main" and any(_inside(p, o) for _, o, t in segments if t == "prior"):
                cause = "earlier-export-in-process"
            elif site in ("open-ag", "open-other") and any("/" in n for n in names_m):
                cause = "method-name"
            elif any(".." in c["desc"].split("/") or ".." in c["desc"][1:-1].split("/") for c in case["model"]["classes"]):
                cause = "dotdot"
            else:
                cause = "other"
            sig = f"C37:escape:{site}:{cause}"
            problems.setdefault(sig, f"{kind} {p!r} lies outside the output directory {out_abs!r} ({tag} export)")
    return problems, created


def _execute_inproc(case):
    core.use_repo()
    fs = fssim.SimFS()
    precreate = []
    if case["env"]["preexisting"] and case["env"]["pre_files"]:
        # dry run on an empty file system to learn which files the command would create, then pre-create some of them
        fs0 = fssim.SimFS()
        dry = dict(case, faults=[], priors=[], env=dict(case["env"], preexisting=False))
        _, segs0 = run_export(dry, fs0)
        files = [p for evs, _, tag in segs0 if tag == "main" for k, p in evs if k == "create"]
        pr = core.rng(case["seed"], "precreate")
        pr.shuffle(files)
        precreate = files[:case["env"]["pre_files"]]
    err, segments = run_export(case, fs, precreate)
    problems, created = judge(case, segments)
    log = core.EventLog()
    log.add("env", "setup", [case["env"], case["faults"], [[p["output"], p["model"] if isinstance(p["model"], str) else "explicit"]
                                                           for p in case.get("priors") or []], sorted(precreate)])
    for evs, out_abs, tag in segments:
        for ev in evs:
            log.add(tag, ev[0], ev[1])
    log.add("cmd", "end", type(err).__name__ if err else "ok")
    bad = any(_has_bad(c["desc"]) for c in case["model"]["classes"]) or \
        any(("/" in m["name"] or m["name"] in ("..", ".", "") or len(m["name"]) > 255 or "\\" in m["name"] or "\x00" in m["name"])
            for c in case["model"]["classes"] for m in c["dmethods"])
    probes = {}
    if fs.fired:
        probes["command-aborted-or-continued-after-injected-fs-error"] = 1
    if precreate:
        probes["pre-existing-colliding-files"] = 1
    if case["env"]["preexisting"]:
        probes["clean-directory-prompt-reached"] = 1
    if case.get("priors"):
        probes["earlier-export-in-same-process"] = 1
    if any(tag == "seam-bypassed" for _, _, tag in segments):
        probes["file-created-through-an-api-outside-the-seam"] = 1
    if err is not None:
        probes["command-raised:" + type(err).__name__] = 1
    faults = {}
    for _, k, _op in fs.fired:
        faults[k] = faults.get(k, 0) + 1
    nev = sum(len(e) for e, _, _ in segments)
    return {"problems": sorted(problems.items()), "digest": log.digest(), "probes": probes, "faults": faults,
            "units": nev, "nontrivial": bool(bad and created), "log": log.events,
            "extra": {"files_and_dirs_created": created}}


def execute(case, isolated=True):
    """isolated=True: the case runs in its own forked process, so that module-level state of the code under test (caches,
    counters) left by other cases cannot influence it and a history inside the case (earlier exports) is explicit and
    replayable.  The bulk search runs cases in-process (forking is very expensive in this sandbox) and confirms every
    violation in isolation (see worker)."""
    if not isolated:
        return _execute_inproc(case)
    import pickle
    core.use_repo()
    _modules()
    import androguard.session  # noqa  (pre-import before fork)
    r, w = os.pipe()
    pid = os.fork()
    if pid == 0:
        code = 0
        try:
            os.close(r)
            try:
                out = ("ok", _execute_inproc(case))
            except HarnessError as e:
                out = ("harness", str(e))
            except BaseException as e:  # noqa
                import traceback
                out = ("harness", "unexpected: " + traceback.format_exc()[-800:])
            with os.fdopen(w, "wb") as f:
                pickle.dump(out, f, protocol=4)
        except BaseException:  # noqa
            code = 3
        finally:
            os._exit(code)
    os.close(w)
    with os.fdopen(r, "rb") as f:
        data = f.read()
    _, status = os.waitpid(pid, 0)
    if status != 0 or not data:
        raise HarnessError(f"C37 case process died (status {status})")
    kind, out = pickle.loads(data)
    if kind != "ok":
        raise HarnessError(out)
    return out


_CONFIRMED = set()    # violation signatures this worker has already reproduced from a clean process state
_RECENT = []          # the cases this worker process ran before (only their model / output: the history of the process)


def worker(seed):
    case = draw_case(seed)
    out = execute(case, isolated=False)
    log = out.pop("log")
    if out["problems"]:
        # confirm in a fresh process; if the violation needs what earlier cases left behind in this process, make that
        # history explicit (earlier exports become `priors` of the case) so that the replay file is self-contained
        want = {s for s, _ in out["problems"]}
        confirmed = None
        if want <= _CONFIRMED:
            # the same violation classes were already reproduced from a clean state by this worker: do not fork again
            # (a change that breaks every export would otherwise cost several forks per case)
            confirmed = (case, dict(out))
        for depth in ((0, 1, 2, 4, 8) if confirmed is None else ()):
            hist = [{"output": c["env"]["output"], "model": c["model"]} for c in _RECENT[-depth:]] if depth else []
            c2 = dict(case, priors=hist + list(case["priors"]))
            o2 = execute(c2, isolated=True)
            if o2["problems"]:          # any escape confirms that the property is violated from a clean state
                confirmed = (c2, o2)
                break
            if depth >= len(_RECENT):
                break
        if confirmed is None:
            # seen only with what older cases left behind in this worker process: not reportable without a replay;
            # counted, and turned into a harness error by the driver if nothing reproducible is found in the batch
            out["unconfirmed"] = sorted(want)
            out["problems"] = []
            out["probes"]["violation-seen-in-worker-but-not-reproducible-from-clean-state"] = 1
        else:
            case, o2 = confirmed
            o2.pop("log", None)
            out["problems"] = o2["problems"]
            _CONFIRMED.update(s for s, _ in o2["problems"])
    _RECENT.append(case)
    del _RECENT[:-8]
    out["sample"] = None
    if out["nontrivial"] and seed % 211 == 0:
        out["sample"] = {"seed": seed, "classes": [c["desc"][:60] for c in case["model"]["classes"]],
                         "methods": [[m["name"][:40] for m in c["dmethods"]] for c in case["model"]["classes"]],
                         "env": case["env"], "faults": case["faults"], "earlier_exports": len(case["priors"]),
                         "events": [list(e[2:]) for e in log][:10],
                         "verdict": [s for s, _ in out["problems"]] or "held"}
    out["case"] = case if out["problems"] else None
    return out


def digest_for_index(base, i):
    _RECENT.clear()
    out = worker(core.derive_seed(PROP, base, i))
    return out["digest"] + ":" + ",".join(sorted(s for s, _ in out["problems"]))


def minimise(case, sig):
    tests = [0]

    def has(c):
        tests[0] += 1
        try:
            return sig in dict(execute(c)["problems"])
        except HarnessError:
            return False
        except Exception:
            return False

    cur = case
    while cur.get("priors") and tests[0] < 40:
        dropped = False
        for i in range(len(cur["priors"])):
            c2 = dict(cur, priors=cur["priors"][:i] + cur["priors"][i + 1:])
            if has(c2):
                cur = c2
                dropped = True
                break
        if not dropped:
            break
    if cur["faults"] and has(dict(cur, faults=[])):
        cur = dict(cur, faults=[])
    env2 = dict(cur["env"], preexisting=False, pre_files=0, answers=[], form=None, filter=None)
    if has(dict(cur, env=env2)):
        cur = dict(cur, env=env2)
    i = 0
    while i < len(cur["model"]["classes"]) and tests[0] < 150:
        cls = cur["model"]["classes"]
        if len(cls) > 1:
            c2 = dict(cur, model=dict(cur["model"], classes=cls[:i] + cls[i + 1:]))
            if has(c2):
                cur = c2
                continue
        i += 1
    for ci in range(len(cur["model"]["classes"])):
        mi = 0
        while tests[0] < 250:
            ms = cur["model"]["classes"][ci]["dmethods"]
            if mi >= len(ms) or len(ms) <= 1:
                break
            cls2 = [dict(c) for c in cur["model"]["classes"]]
            cls2[ci]["dmethods"] = ms[:mi] + ms[mi + 1:]
            c2 = dict(cur, model=dict(cur["model"], classes=cls2))
            if has(c2):
                cur = c2
            else:
                mi += 1
    return cur, {"from_classes": len(case["model"]["classes"]), "shrink_runs": tests[0]}


def real_run(case):
    """Re-run a (minimised) case against the real file system, 40 levels deep under /var/tmp; list what escaped."""
    root = "/var/tmp/verif-c37-real-%d" % os.getpid()
    shutil.rmtree(root, ignore_errors=True)
    deep = os.path.join(root, *["d%d" % i for i in range(40)], "cwd")
    os.makedirs(deep)
    old = os.getcwd()
    escaped = []
    err = None
    try:
        from gen import dexasm
        raw, _ = dexasm.assemble(case["model"])
        s = _load_session(raw)
        os.chdir(deep)
        out = case["env"]["output"]
        if out.startswith("/"):
            out = out.lstrip("/")
        import androguard.cli.main as M
        answers = list(case["env"]["answers"])
        saved_in, saved_out = builtins.input, sys.stdout

        def scripted(prompt=""):
            if not answers:
                raise EOFError
            return answers.pop(0)
        builtins.input = scripted
        sys.stdout = _DEVNULL
        try:
            M.export_apps_to_format("x.dex", s, out, case["env"]["filter"], False, None, case["env"]["form"])
        except BaseException as e:  # noqa
            err = type(e).__name__
        finally:
            builtins.input = saved_in
            sys.stdout = saved_out
        out_abs = os.path.normpath(os.path.join(deep, out))
        for dp, dn, fn in os.walk(root):
            for f in fn:
                p = os.path.join(dp, f)
                if not _inside(p, out_abs):
                    escaped.append(os.path.relpath(p, deep))
            for d in dn:
                p = os.path.join(dp, d)
                if not _inside(p, out_abs) and not out_abs.startswith(p) and not deep.startswith(p):
                    escaped.append(os.path.relpath(p, deep) + "/")
    finally:
        os.chdir(old)
        shutil.rmtree(root, ignore_errors=True)
    return sorted(escaped)[:20], err


def write_replay(case, sig, msg, info):
    out = execute(case)
    sigs = dict(out["problems"])
    if sig not in sigs:
        return None
    try:
        escaped, rerr = core.isolated(real_run, case)
    except Exception as e:
        escaped, rerr = [], "real-run-failed:" + type(e).__name__
    payload = {"property": PROP, "engine": "fssim", "seed": case["seed"], "config": case["env"], "model": case["model"],
               "faults": case["faults"], "priors": case.get("priors") or [], "ops": [["export_apps_to_format", case["env"]["output"]]], "decisions": [],
               "violation": {"class": "escape", "signature": sig, "message": sigs[sig]},
               "digest": out["digest"], "trace": [list(e) for e in out["log"]][:200],
               "real_file_system": {"escaped_paths_relative_to_cwd": escaped, "command_error": rerr},
               "minimised_from": info}
    name = "%s-%016x" % (sig.replace(":", "_"), case["seed"])
    return core.write_replay(PROP, name, payload)


def evidence_extra(agg):
    return {"files_and_dirs_created": agg["extra"].get("files_and_dirs_created", 0)}


def run(tier):
    return driver.explore(__import__("checks.c37", fromlist=["x"]), tier)


def replay(path):
    def rerun(rp):
        out = execute({"seed": rp["seed"], "model": rp["model"], "env": rp["config"], "faults": rp["faults"],
                       "priors": rp.get("priors") or []}, isolated=False)
        return {s for s, _ in out["problems"]}, out["digest"], [f"{s}: {m}" for s, m in out["problems"]]
    return driver.replay_common(__import__("checks.c37", fromlist=["x"]), path, rerun)
