"""C36 -- concurrent sessions on one database get distinct identifiers (DESIGN.md 4.1).

Engine: simkit.procsim (real forked processes stepped at every DB-API call on one SQLite file).
"""
from __future__ import annotations

import os
import shutil
import sqlite3
import sys
import time

from simkit import core, procsim
from simkit.core import HarnessError

PROP = "C36"
SCRATCH_ROOT = "/dev/shm" if os.path.isdir("/dev/shm") else "/var/tmp"

SCRIPTS = [
    (["session"], 40),
    (["default"], 10),
    (["default", "event"], 4),
    (["adex-bad"], 6),
    (["adex-ok"], 3),
    (["adex-bad", "session"], 3),
    (["session", "addapk"], 10),
    (["session", "adddex", "session"], 4),
    (["session", "event"], 12),
    (["session", "sysevent", "save"], 10),
    (["session", "session"], 14),
    (["session", "event", "session"], 8),
    (["session", "save", "session", "event"], 6),
]


# --------------------------------------------------------------------------
# code under test, as run inside each simulated process
# --------------------------------------------------------------------------

_GOOD = []


def _GOOD_DEX():
    if not _GOOD:
        with open(os.path.join(core.CORPUS_DIR, "dex", "Test.dex"), "rb") as f:
            _GOOD.append(f.read())
    return _GOOD[0]


_APK = []


def _GOOD_APK():
    if not _APK:
        with open(os.path.join(core.CORPUS_DIR, "apk", "Test-debug.apk"), "rb") as f:
            _APK.append(f.read())
    return _APK[0]


def read_session_rows(conn):
    """the identifier stored in each row of table session: column `id` if the table has one, else its primary-key column,
    else the first column (the check must not assume more about the schema than the property says: one row per session)"""
    cols = [(r[1], r[5]) for r in conn.execute("PRAGMA table_info(session)")]
    if not cols:
        return []
    names = [c for c, _ in cols]
    key = "id" if "id" in names else next((c for c, pk in cols if pk), names[0])
    rows = [r[0] for r in conn.execute('select "%s" from session' % key)]
    if "session_id" in names and key != "session_id":
        # a second identifier column added later: rows written through it carry the identifier there
        extra = [r[0] for r in conn.execute('select "session_id" from session')]
        rows = [e if e is not None else r for r, e in zip(rows, extra)]
    return rows


_DATABASES = []     # every dataset.Database opened by the code under test in this body, this run


def _track_databases():
    import dataset
    if getattr(dataset.connect, "_verif_tracked", False):
        return
    real = dataset.connect

    def connect(*a, **k):
        db = real(*a, **k)
        _DATABASES.append(db)
        return db
    connect._verif_tracked = True
    dataset.connect = connect


def child_teardown():
    """What the death of the process does to its connections: close them (open transactions roll back)."""
    import gc
    while _DATABASES:
        db = _DATABASES.pop()
        try:
            db.close()
        except Exception:
            pass
    gc.collect()


def child_main(script, report):
    import androguard.session as S
    _track_databases()
    sessions = []
    for opidx, op in enumerate(script["ops"]):
        try:
            if op in ("session", "default"):
                if op == "session":
                    s = S.Session(db_url=script["db_url"])
                else:
                    # the path of misc.get_default_session / AnalyzeDex: Session() on ./androguard.db of the cwd
                    import androguard.misc as M
                    from androguard.core import androconf
                    os.chdir(script["cwd"])
                    androconf.CONF["SESSION"] = None
                    s = M.get_default_session()
                sessions.append(s)
                sid = s.session_id
                if not isinstance(sid, (int, str, bool, type(None))):
                    sid = repr(sid)
                report(("ret", opidx, "session", sid, type(s.session_id).__name__))
            elif op in ("adex-bad", "adex-ok"):
                # misc.AnalyzeDex with the default session: Session() on ./androguard.db, then the file is parsed
                import sqlite3
                import androguard.misc as M
                from androguard.core import androconf
                from sqlalchemy.exc import SQLAlchemyError
                os.chdir(script["cwd"])
                androconf.CONF["SESSION"] = None
                err = None
                try:
                    M.AnalyzeDex(_GOOD_DEX() if op == "adex-ok" else b"dex\n035\x00" + b"\x01" * 200, raw=True)
                except Exception as e:
                    err = e
                s = androconf.CONF["SESSION"]
                if s is not None:
                    sessions.append(s)
                    sid = s.session_id
                    if not isinstance(sid, (int, str, bool, type(None))):
                        sid = repr(sid)
                    report(("ret", opidx, "session", sid, type(s.session_id).__name__))
                elif isinstance(err, (SQLAlchemyError, sqlite3.Error)):
                    raise err
                else:
                    report(("info", opidx, "analyzedex-left-no-session", type(err).__name__ if err else "none"))
            elif op == "addapk":
                sessions[-1].addAPK("t.apk", _GOOD_APK())
                report(("ret", opidx, op, None, ""))
            elif op == "adddex":
                sessions[-1].addDEX("t.dex", _GOOD_DEX())
                report(("ret", opidx, op, None, ""))
            elif op == "event":
                sessions[-1].insert_event("call", "callee", "params", "ret")
                report(("ret", opidx, op, None, ""))
            elif op == "sysevent":
                sessions[-1].insert_system_event("call", "callee", "info", "params")
                report(("ret", opidx, op, None, ""))
            elif op == "save":
                sessions[-1].save()
                report(("ret", opidx, op, None, ""))
            else:
                raise HarnessError("unknown op " + op)
        except HarnessError:
            raise
        except Exception as e:  # the code under test raised: report, then the script dies like an uncaught exception
            first = (str(e).split("\n")[0])[:200]
            report(("exc", opidx, "session" if op in ("default", "adex-bad", "adex-ok") else op, type(e).__name__, first,
                    procsim._LAST_KIND[0]))
            return


# --------------------------------------------------------------------------
# initial database state (made by the real code, sequentially, un-instrumented)
# --------------------------------------------------------------------------

_TEMPLATES = {}


def _template(n: int):
    """bytes of a database holding n sessions created one after another by Session(), and their ids."""
    if n in _TEMPLATES:
        return _TEMPLATES[n]
    d = os.path.join(SCRATCH_ROOT, f"verif-c36-tpl-{os.getpid()}-{n}")
    shutil.rmtree(d, ignore_errors=True)
    os.makedirs(d)
    path = os.path.join(d, "androguard.db")
    pid = os.fork()
    if pid == 0:
        try:
            import androguard.session as S
            for _ in range(n):
                s = S.Session(db_url="sqlite:///" + path)
                s.db.close()
            c = sqlite3.connect(path)
            c.execute("PRAGMA wal_checkpoint(TRUNCATE)")
            c.close()
            os._exit(0)
        except BaseException:
            os._exit(3)
    _, st = os.waitpid(pid, 0)
    if st != 0:
        raise HarnessError(f"could not build template database with {n} sequential sessions (status {st})")
    with open(path, "rb") as f:
        data = f.read()
    c = procsim._REAL_CONNECT(path)
    ids = sorted(read_session_rows(c), key=repr)
    c.close()
    shutil.rmtree(d, ignore_errors=True)
    if len(set(ids)) != n:
        raise HarnessError(f"template database: expected {n} distinct sequential ids, got {ids}")
    _TEMPLATES[n] = (data, ids)
    return _TEMPLATES[n]


_SAVED = {}


def _template_saved(n: int):
    """The same n sequential sessions, but the database of the run is the file written by Session.save(<file>) ("open a saved
    session again").  The unchanged code ignores the file name and writes nothing: then the plain template is used."""
    if n in _SAVED:
        return _SAVED[n]
    d = os.path.join(SCRATCH_ROOT, f"verif-c36-sav-{os.getpid()}-{n}")
    shutil.rmtree(d, ignore_errors=True)
    os.makedirs(d)
    path = os.path.join(d, "androguard.db")
    saved = os.path.join(d, "saved.db")
    pid = os.fork()
    if pid == 0:
        try:
            import androguard.session as S
            s = None
            for _ in range(n):
                if s is not None:
                    s.db.close()
                s = S.Session(db_url="sqlite:///" + path)
            try:
                s.save(saved)
            except Exception:
                pass
            s.db.close()
            if os.path.exists(saved):
                c = sqlite3.connect(saved)
                c.execute("PRAGMA wal_checkpoint(TRUNCATE)")
                c.close()
            os._exit(0)
        except BaseException:
            os._exit(3)
    _, st = os.waitpid(pid, 0)
    out = None
    if st == 0 and os.path.exists(saved):
        try:
            c = procsim._REAL_CONNECT(saved)
            ids = sorted(read_session_rows(c), key=repr)
            c.close()
            if len(ids) == n and len(set(ids)) == n:
                with open(saved, "rb") as f:
                    out = (f.read(), ids, True)
        except sqlite3.Error:
            out = None
    shutil.rmtree(d, ignore_errors=True)
    if out is None:
        data, ids = _template(n)
        out = (data, ids, False)
    _SAVED[n] = out
    return out


# --------------------------------------------------------------------------
# one run
# --------------------------------------------------------------------------

def draw_case(seed: int) -> dict:
    r = core.rng(seed, "config")
    K = r.choices([2, 3, 4], [40, 40, 20])[0]
    db_n = 0 if r.random() < 0.4 else r.randint(1, 5)
    scripts = []
    for _ in range(K):
        ops = r.choices([s for s, _ in SCRIPTS], [w for _, w in SCRIPTS])[0]
        scripts.append(list(ops))
    mode = r.choices(["uniform", "coarse", "pct"], [30, 40, 30])[0]
    cfg = {"mode": mode, "pct_d": r.choice([1, 2, 3]), "max_steps": 6000, "max_vms": 120000}
    if r.random() < 0.5:
        cfg["class"] = "schedule-only"
    else:
        cfg["class"] = "faults"
        kinds = [k for k in ("crash", "stall", "ioerr", "restart", "linger") if r.random() < 0.5]
        if not kinds:
            kinds = [r.choice(["crash", "stall", "ioerr", "linger"])]
        if "restart" in kinds and "crash" not in kinds:
            kinds.append("crash")
        if "crash" in kinds:
            cfg["p_crash"] = r.choice([0.002, 0.005, 0.015])
        if "stall" in kinds:
            cfg["p_stall"] = r.choice([0.004, 0.01, 0.03])
        if "ioerr" in kinds:
            cfg["p_ioerr"] = r.choice([0.002, 0.006, 0.02])
        cfg["restart"] = "restart" in kinds
        cfg["linger"] = "linger" in kinds
    from_corpus = bool(db_n) and core.rng(seed, "dbsrc").random() < 0.35
    return {"seed": seed, "scripts": scripts, "db_n": db_n, "cfg": cfg, "db_from_corpus": from_corpus,
            "db_via_save": bool(db_n) and not from_corpus and core.rng(seed, "dbsave").random() < 0.3}


class Verdicts:
    """Oracle state for one run (I1, I3/I3' online; I2, L at the end)."""

    def __init__(self, case, pre_ids):
        self.case = case
        self.ids = list(pre_ids)          # identifiers of sessions on this database so far
        self.owners = [("pre", i) for i in range(len(pre_ids))]
        self.problems = []                # (signature, message)
        self.fresh = "fresh" if case["db_n"] == 0 else "existing"
        self.successes = 0
        self.failures = 0
        self.ioerr_targets = set()

    def on_message(self, res, p, m):
        tag = m[0]
        if tag == "ret" and m[2] == "session":
            sid = m[3]
            self.successes += 1
            for other, owner in zip(self.ids, self.owners):
                if other == sid:
                    self.problems.append(("C36:duplicate-id",
                                          f"process {p.idx} op {m[1]} got id {sid!r} already held by {owner}"))
                    break
            self.ids.append(sid)
            self.owners.append((p.idx, m[1]))
        elif tag == "exc":
            _, opidx, op, cls, msg, kind = m
            if op != "session":
                # the statement is about creating sessions; later work on a session only provides in-flight state
                res.probe("non-session-op-raised:" + cls)
                return
            self.failures += 1
            low = msg.lower()
            injected = any(f and f[0] == "ioerr" for a, f in res.decisions if a == p.idx)
            if injected and ("disk i/o error" in low or "database or disk is full" in low):
                res.probe("session-failed-with-injected-ioerr")
                return        # I3'(i): the injected error itself
            if "database is locked" in low and (res.faults_fired.get("stall") or res.faults_fired.get("linger")):
                # I3'(ii).  The stall explains the time-out only if the lock holder sat in the window every writer needs
                # (a successful write, commit pending).  A holder that keeps the write lock after a statement of its own
                # failed, or across reads, makes the other session fail through the code under test, not through the fault.
                holders = [q for q in res.procs if q is not p and q.txn_open and q.state not in ("done", "crashed")]
                needless = [q for q in holders if not q.injected_failure and
                            (not q.clean_hold or q.pending[0] not in ("commit", "rollback", "close"))]
                if not needless:
                    res.probe("lock-timeout-under-stall-or-linger")
                    return
                res.probe("lock-timeout-while-holder-kept-the-lock-needlessly")
                q = needless[0]
                self.problems.append((f"C36:OperationalError-locked-by-needless-holder:{op}@{kind}:{self.fresh}",
                                      f"process {p.idx} op {opidx} {op} raised {cls}: {msg}; process {q.idx} held the write lock "
                                      f"although its last write did not succeed or other statements followed it (last executed: "
                                      f"{q.last_kind}, next: {q.pending[0]})"))
                return
            detail = cls
            if "already exists" in low:
                detail += "-table-exists"
            elif "database is locked" in low:
                detail += "-locked"
            elif "unique constraint" in low:
                detail += "-unique"
            elif "no such table" in low:
                detail += "-no-such-table"
            self.problems.append((f"C36:{detail}:{op}@{kind}:{self.fresh}",
                                  f"process {p.idx} op {opidx} {op} raised {cls}: {msg}"))


def run_case(case: dict, recorded=None, strict=False) -> dict:
    """Execute one simulated run; return a plain dict (picklable) with verdicts and statistics."""
    core.use_repo()
    import androguard.session  # noqa  (pre-import before fork)
    seed = case["seed"]
    d = os.path.join(SCRATCH_ROOT, f"verif-c36-{os.getpid()}")
    shutil.rmtree(d, ignore_errors=True)
    os.makedirs(d)
    path = os.path.join(d, "androguard.db")
    pre_ids = []
    via_save = None
    try:
        if case["db_n"] and case.get("db_from_corpus"):
            # a database written by the unchanged code at the time corpus/db was made ("an older version")
            with open(os.path.join(core.CORPUS_DIR, "db", "sessions-%d.db" % case["db_n"]), "rb") as f:
                data = f.read()
            c0 = procsim._REAL_CONNECT(os.path.join(core.CORPUS_DIR, "db", "sessions-%d.db" % case["db_n"]))
            pre_ids = sorted(read_session_rows(c0), key=repr)
            c0.close()
            with open(path, "wb") as f:
                f.write(data)
        elif case["db_n"] and case.get("db_via_save"):
            data, pre_ids, was_saved = _template_saved(case["db_n"])
            with open(path, "wb") as f:
                f.write(data)
            via_save = "database-written-by-Session.save(file)" if was_saved else "Session.save(file)-wrote-no-file:plain-template-used"
        elif case["db_n"]:
            data, pre_ids = _template(case["db_n"])
            with open(path, "wb") as f:
                f.write(data)
        url = "sqlite:///" + path
        scripts = [{"ops": ops, "db_url": url, "cwd": d} for ops in case["scripts"]]
        v = Verdicts(case, pre_ids)
        res = procsim.simulate(
            scripts, child_main, child_teardown, case["cfg"],
            sched_rng=None if recorded is not None else core.rng(seed, "sched"),
            fault_rng=None if (recorded is not None or case["cfg"].get("class") != "faults") else core.rng(seed, "faults"),
            recorded=recorded, strict=strict, on_message=v.on_message,
            restart_script={"ops": ["session"], "db_url": url, "cwd": d})
        # ---- I2: read the database with a fresh un-instrumented connection ------------
        rows = []
        if os.path.exists(path):
            c = procsim._REAL_CONNECT(path, timeout=5)
            try:
                try:
                    rows = read_session_rows(c)
                except sqlite3.OperationalError as e:
                    if "no such table" not in str(e):
                        raise
            finally:
                c.close()
        for sid, owner in zip(v.ids, v.owners):
            if owner[0] == "pre":
                continue
            if not any(r == sid for r in rows):
                v.problems.append(("C36:missing-row", f"session id {sid!r} of {owner} has no row in table session"))
        if len(rows) != len(set(rows)):
            v.problems.append(("C36:duplicate-row", f"table session holds duplicate ids {sorted(rows)}"))
        if res.stuck:
            v.problems.append(("C36:stuck", f"run did not finish: {res.ended_by} after {res.steps} steps, {res.vclock} virtual ms"))
        res.log.add("sim", "final-rows", sorted(rows, key=repr))
        # reach probes from the coarse trace
        ct = res.coarse_trace
        open_count = {}
        for a, k in ct:
            if k == "count-session":
                if any(b != a for b in open_count):
                    res.probe("two-readers-saw-same-count")
                open_count[a] = True
            elif k == "commit":
                open_count.pop(a, None)
        if res.bypass:
            res.probe("dbapi-call-bypassed-scheduling-point", res.bypass)
        if via_save:
            res.probe(via_save)
        return {
            "seed": seed,
            "problems": v.problems,
            "digest": res.log.digest(),
            "steps": res.steps,
            "vms": res.vclock,
            "faults": res.faults_fired,
            "probes": res.probes,
            "coarse": [list(x) for x in ct],
            "decisions": res.decisions,
            "successes": v.successes,
            "failures": v.failures,
            "diverged": res.diverged,
            "nprocs": len(res.procs),
            "log": res.log.events,
        }
    finally:
        shutil.rmtree(d, ignore_errors=True)


def _worker(seed):
    case = draw_case(seed)
    out = run_case(case)
    out.pop("log", None)
    if not out["problems"]:
        out.pop("decisions", None)      # keep memory small; re-derivable from the seed
    out["case"] = case
    return out


def digest_for_index(base, i):
    out = _worker(core.derive_seed(PROP, base, i))
    return out["digest"] + ":" + ",".join(sorted({s for s, _ in out["problems"]}))


# --------------------------------------------------------------------------
# shrinking and replay
# --------------------------------------------------------------------------

def _sigs(out):
    return {s for s, _ in out["problems"]}


def shrink(case: dict, decisions: list, target: str, budget: int = 120):
    """Shrink (scripts, faults, schedule) while the same violation signature persists."""
    tests = [0]
    best = (case, decisions)

    def attempt(c, dec):
        if tests[0] >= budget:
            return None
        tests[0] += 1
        out = run_case(c, recorded=dec, strict=False)
        if target in _sigs(out):
            return out
        return None

    def clone(c):
        return {"seed": c["seed"], "scripts": [list(s) for s in c["scripts"]], "db_n": c["db_n"],
                "cfg": dict(c["cfg"]), "db_from_corpus": c.get("db_from_corpus", False), "db_via_save": c.get("db_via_save", False)}

    case, decisions = clone(case), [list(x) for x in decisions]
    # 1. drop whole processes (empty script), 2. drop trailing ops
    for i in range(len(case["scripts"])):
        if not case["scripts"][i]:
            continue
        c2 = clone(case)
        c2["scripts"][i] = []
        out = attempt(c2, decisions)
        if out:
            case, decisions = c2, out["decisions"]
    for i in range(len(case["scripts"])):
        while len(case["scripts"][i]) > 1:
            c2 = clone(case)
            c2["scripts"][i] = c2["scripts"][i][:-1]
            out = attempt(c2, decisions)
            if not out:
                break
            case, decisions = c2, out["decisions"]
    # 3. drop faults one at a time
    for j in range(len(decisions)):
        if j < len(decisions) and decisions[j][1]:
            d2 = [list(x) for x in decisions]
            d2[j][1] = None
            out = attempt(case, d2)
            if out:
                decisions = out["decisions"]
    for flag in ("linger", "restart"):
        if case["cfg"].get(flag):
            c2 = clone(case)
            c2["cfg"][flag] = False
            out = attempt(c2, decisions)
            if out:
                case, decisions = c2, out["decisions"]
    # 4. fewer context switches: try running each process to completion in turn from some point on
    for cut in (0, len(decisions) // 4, len(decisions) // 2, 3 * len(decisions) // 4):
        out = attempt(case, decisions[:cut])
        if out and _switches(out["decisions"]) < _switches(decisions):
            decisions = out["decisions"]
            break
    # 5. delta debugging on the remaining explicit decision list
    def fails(sub):
        return attempt(case, sub) is not None
    sub = core.ddmin(decisions, fails, max_tests=max(0, budget - tests[0]))
    out = run_case(case, recorded=sub, strict=False)
    if target in _sigs(out):
        decisions = out["decisions"]
    return case, decisions, tests[0]


def _switches(dec):
    return sum(1 for a, b in zip(dec, dec[1:]) if a[0] != b[0])


def make_replay(case, decisions, target, minimised_from=None):
    out = run_case(case, recorded=decisions, strict=True)
    if target not in _sigs(out):
        return None
    msg = [m for s, m in out["problems"] if s == target][0]
    payload = {
        "property": PROP, "engine": "procsim", "seed": case["seed"],
        "config": case["cfg"], "scripts": case["scripts"], "db_n": case["db_n"], "db_from_corpus": case.get("db_from_corpus", False), "db_via_save": case.get("db_via_save", False),
        "decisions": out["decisions"],
        "faults": [[i, d[1]] for i, d in enumerate(out["decisions"]) if d[1]],
        "violation": {"class": target.split(":")[1], "signature": target, "message": msg},
        "digest": out["digest"],
        "trace": [list(e) for e in out["log"]][-400:],
        "minimised_from": minimised_from,
    }
    name = "%s-%016x" % (target.replace(":", "_").replace("@", "-").replace("/", "_"), case["seed"])
    return core.write_replay(PROP, name, payload)


def replay(path: str) -> int:
    rp = core.load_replay(path)
    case = {"seed": rp["seed"], "scripts": rp["scripts"], "db_n": rp["db_n"], "cfg": rp["config"],
            "db_from_corpus": rp.get("db_from_corpus", False), "db_via_save": rp.get("db_via_save", False)}
    out = run_case(case, recorded=rp["decisions"], strict=True)
    sigs = _sigs(out)
    want = rp["violation"]["signature"]
    same_digest = out["digest"] == rp["digest"]
    print(f"REPLAY property={PROP} expected={want} got={sorted(sigs)} digest_match={same_digest}")
    for s, m in out["problems"]:
        print(f"  {s}: {m}")
    if want in sigs and same_digest:
        print(f"VIOLATION property={PROP} replay={path} signature={want}")
        return 1
    if want in sigs:
        print("REPLAY-DIVERGED: same violation, different event log", file=sys.stderr)
        return 2
    return 0


# --------------------------------------------------------------------------
# batch
# --------------------------------------------------------------------------

TIERS = {"quick": dict(runs=1500, wall=1400), "thorough": dict(runs=24000, wall=5400)}


def run(tier: str) -> int:
    t0 = time.monotonic()
    core.use_repo()
    import androguard.session  # noqa
    base = core.base_seed()
    budget = TIERS[tier]
    n = int(os.environ.get("VERIF_RUNS", budget["runs"]))
    seeds = [core.derive_seed(PROP, base, i) for i in range(n)]
    outcome = core.Outcome(PROP)
    agg = {"runs": 0, "steps": 0, "vms": 0, "faults": {}, "probes": {}, "digests": set(),
           "nontrivial_digests": set(), "coarse": set(), "class": {}, "mode": {}, "successes": 0, "failures": 0,
           "samples": [], "K": {}}
    unknown = {}   # signature -> (case, decisions, message)

    def on_result(seed, out):
        agg["runs"] += 1
        agg["steps"] += out["steps"]
        agg["vms"] += out["vms"]
        agg["successes"] += out["successes"]
        agg["failures"] += out["failures"]
        for k, v in out["faults"].items():
            agg["faults"][k] = agg["faults"].get(k, 0) + v
        for k, v in out["probes"].items():
            agg["probes"][k] = agg["probes"].get(k, 0) + v
        agg["digests"].add(out["digest"])
        if out["probes"] or out["faults"]:
            agg["nontrivial_digests"].add(out["digest"])
        agg["coarse"].add(tuple(map(tuple, out["coarse"])))
        c = out["case"]
        agg["class"][c["cfg"]["class"]] = agg["class"].get(c["cfg"]["class"], 0) + 1
        agg["mode"][c["cfg"]["mode"]] = agg["mode"].get(c["cfg"]["mode"], 0) + 1
        agg["K"][str(out["nprocs"])] = agg["K"].get(str(out["nprocs"]), 0) + 1
        if len(agg["samples"]) < 4 and (out["probes"] or out["faults"]):
            agg["samples"].append({"seed": seed, "scripts": c["scripts"], "db_sessions_before": c["db_n"],
                                   "cfg": c["cfg"], "coarse_interleaving": out["coarse"][:24],
                                   "faults_fired": out["faults"], "steps": out["steps"],
                                   "verdict": sorted({s for s, _ in out["problems"]}) or "held"})
        for sig, msg in out["problems"]:
            if outcome.findings.is_known(sig):
                continue
            if sig not in unknown:
                unknown[sig] = (c, out["decisions"], msg)

    core.run_batch(_worker, seeds, wall_cap_s=budget["wall"], chunk=8, on_result=on_result, start="spawn",
                   stop_when=lambda out: any(not outcome.findings.is_known(sig) for sig, _ in out["problems"]))

    for sig in sorted(unknown):
        case, decisions, msg = unknown[sig]
        c2, d2, tests = shrink(case, decisions, sig)
        path = make_replay(c2, d2, sig, minimised_from={"steps": len(decisions), "shrink_runs": tests,
                                                         "scripts": case["scripts"]})
        if path is None:
            path = make_replay(case, decisions, sig)
        if path is None:
            raise HarnessError(f"violation {sig} found (seed {case['seed']}) but does not replay deterministically")
        outcome.violation(sig, path, msg)

    wall = time.monotonic() - t0
    cov = {
        "evaluations": agg["runs"],
        "distinct_nontrivial": len(agg["nontrivial_digests"]),
        "rule": "one evaluation = one simulated multi-process run (seeded swarm configuration, schedule and faults); "
                "distinct = distinct event-log digests; non-trivial = the run hit at least one reach probe "
                "(two readers saw the same count, busy-wait entered, ...) or had at least one fault fire",
        "samples": agg["samples"],
        "exhaustive": False,
        "runs_per_hour": int(agg["runs"] / wall * 3600) if wall > 0 else 0,
        "seeds_per_hour": int(agg["runs"] / wall * 3600) if wall > 0 else 0,
        "simulated_time": {"unit": "virtual ms (busy-handler clock) / scheduling steps",
                           "virtual_ms_total": agg["vms"], "steps_total": agg["steps"]},
        "faults_fired": agg["faults"],
        "interleavings": {"measure": "distinct sequences of (process, statement kind) over the four statements that touch "
                                     "table session: count-session, create-session, insert-session, commit",
                          "distinct": len(agg["coarse"]), "possible": None},
        "distinct_event_logs": len(agg["digests"]),
        "reach_probes": agg["probes"],
        "config_classes": agg["class"], "scheduler_modes": agg["mode"], "processes_per_run": agg["K"],
        "session_calls": {"returned": agg["successes"], "raised": agg["failures"]},
        "components": {
            "real": ["androguard.session.Session", "dataset", "SQLAlchemy", "sqlite3 C library", "OS processes (fork)",
                     "POSIX file locks / WAL shared memory", "SIGKILL"],
            "stub": ["SQLite busy handler sleep -> virtual clock (same back-off table, 5000 ms)",
                     "choice of which process runs next (seeded scheduler)"]},
        "known_findings_matched": dict(outcome.findings.matched),
    }
    core.write_evidence(PROP, tier, base, "exploration", cov, wall, len(outcome.violations), [
        "re-executing a statement that failed with SQLITE_BUSY is equivalent to the C busy handler retrying the lock",
        "torn/lost writes inside the SQLite file or WAL are not injected (that would test SQLite, not androguard)",
        "one host, local file system (tmpfs); other db_url back ends are out of reach offline",
    ])
    print(f"C36 {tier}: runs={agg['runs']} steps={agg['steps']} virtual_ms={agg['vms']} faults={agg['faults']} "
          f"distinct_coarse_interleavings={len(agg['coarse'])} probes={agg['probes']} wall={wall:.1f}s")
    return outcome.finish()
