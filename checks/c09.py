"""C09 -- corrupted or non-DEX input is rejected at the header (DESIGN.md 4.6).

Engine iosim, schedule degenerate, fault space ENUMERATED: every single stored-byte fault at every offset >= 12 of small
valid DEX files (checksum left stale: a byte rotted after the file was written), plus header-field faults with the
checksum recomputed so that each explicit check is exercised on its own.  The recorded read history decides "before
any structure is parsed".
"""
from __future__ import annotations

import glob
import os
import struct

from simkit import core, driver, iosim
from simkit.core import HarnessError

PROP = "C09"
LEVEL = "fault_enumeration"
TIERS = {"quick": dict(runs=48, wall=1400, chunk=1), "thorough": dict(runs=400, wall=5400, chunk=1)}
TIME_UNIT = "parses (no clock in the code under test; the read history of each parse is recorded)"
RULE = ("one evaluation = DEX(buf) on a valid small DEX file with exactly one stored-byte fault (offset >= 12, checksum left "
        "stale) or one header-field fault (checksum recomputed); per file the space offset x value is enumerated (quick: 4 "
        "values per offset, thorough: all 255); distinct = distinct (file, offset, value) faults; non-trivial = the faulted "
        "byte lies in a byte range the parse of the pristine file consumed as a structure (outside the whole-body checksum read)")
COMPONENTS = {"real": ["androguard.core.dex.DEX / HeaderItem / DalvikPacker", "zlib.adler32"],
              "stub": ["byte store behind io.BufferedReader (recording subclass)", "ClassManager.add_type_item wrapped for observation"]}
ASSUMPTIONS = ["a header value is 'wrong' only as the property statement says: magic violating de[xy]\\n...\\0, endian tag != 0x12345678, "
               "header size != 0x70, Adler-32 mismatch; version digits and dex/dey are valid values and are skipped",
               "rejection = any exception out of DEX(buf); the exception class is recorded in the evidence",
               "exhaustive is claimed only when all 255 values were enumerated for every offset of every file of the run"]

HEADER_REGIONS = [(0, 8, "magic"), (8, 12, "checksum"), (12, 32, "signature"), (32, 36, "file_size"), (36, 40, "header_size"),
                  (40, 44, "endian_tag"), (44, 52, "link"), (52, 56, "map_off"), (56, 112, "section-table")]

_CALLS = [0]
_WRAPPED = [False]
STEP_BUDGET = 300_000      # pristine files of this size need < 20 000 steps; a rejection needs a few hundred


def _wrap_cm():
    if _WRAPPED[0]:
        return
    from androguard.core import dex
    orig = dex.ClassManager.add_type_item

    def add_type_item(self, *a, **k):
        _CALLS[0] += 1
        return orig(self, *a, **k)
    dex.ClassManager.add_type_item = add_type_item
    _WRAPPED[0] = True


def region_of(raw, off):
    if off < 0x70:
        for lo, hi, n in HEADER_REGIONS:
            if lo <= off < hi:
                return "header:" + n
    h = struct.unpack_from("<20I", raw, 32)
    # file_size, header_size, endian, link_size, link_off, map_off, (size, off) x 6, data_size, data_off
    names = ["string_ids", "type_ids", "proto_ids", "field_ids", "method_ids", "class_defs"]
    widths = [4, 4, 12, 8, 8, 32]
    for i, (nm, w) in enumerate(zip(names, widths)):
        size, o = h[6 + 2 * i], h[7 + 2 * i]
        if size and o <= off < o + size * w:
            return nm
    return "data"


def files_for(seed, tier):
    """the DEX files of one worker call: one corpus file or one generated file"""
    r = core.rng(seed, "workload")
    corpus = sorted(glob.glob(os.path.join(core.CORPUS_DIR, "dex", "*.dex")))
    if r.random() < 0.4:
        p = r.choice(corpus)
        return os.path.basename(p), open(p, "rb").read(), {"kind": "corpus", "name": os.path.basename(p)}
    from gen import dexasm, models
    if r.random() < 0.2:
        # tiny files: header + map list only, or a single string / a single empty class (map list right behind the header)
        t = r.choice(["empty", "string", "class"])
        model = {"classes": [], "strings_extra": []}
        if t == "string":
            model["strings_extra"] = [r.choice(["a", "hello", ""])]
        elif t == "class":
            model["classes"] = [{"desc": "La;", "access": 1, "super": None, "interfaces": [], "source": None,
                                 "sfields": [], "ifields": [], "dmethods": [], "vmethods": []}]
        raw, _ = dexasm.assemble(model)
        return "generated", raw, {"kind": "gen", "model": model}
    model = r.choice([models.share_model, models.xref_model])(r) if r.random() < 0.8 else models.structured_model(r, 1, 2)
    if len(model["classes"]) > 3:
        model["classes"] = model["classes"][:3]
    raw, _ = dexasm.assemble(model)
    return "generated", raw, {"kind": "gen", "model": model}


def check_one(buf, entry="dex"):
    """-> (verdict, detail): 'rejected' | 'accepted' | 'late-reject'.  entry: 'dex' = DEX(buf), 'odex' = ODEX(buf) (the
    subclass shares DEX.__init__ and parses a plain DEX buffer through the same header checks)"""
    _CALLS[0] = 0
    res = iosim.parse(entry, buf, keep_log=True, clock=True, budget=STEP_BUDGET)
    oc = res["outcome"]
    if oc in ("loop", "inconclusive"):
        return "hang", "%s in %s after %d steps" % (oc, res["where"] or res["owner"], res["steps"])
    outside = None
    for sid, pos, asked, got in (res["log"] if entry != "apk" else ()):     # (through an APK object the archive's own
        #                                                                      streams are read too: there only the wrapped
        #                                                                      add_type_item decides "before any structure")
        if sid != 1:
            outside = ("second-stream", pos)
            break
        if pos + max(got, 0) <= 0x70:
            continue
        if pos == 12 and asked < 0:
            continue                      # the single whole-body read for the checksum
        outside = (pos, asked)
        break
    if oc == "ok":
        return "accepted", oc
    if outside is not None:
        return "late-reject", "read@%r" % (outside,)
    if _CALLS[0]:
        return "late-reject", "add_type_item"
    return "rejected", oc


def _src_bytes(src):
    if src["kind"] == "corpus":
        return open(os.path.join(core.CORPUS_DIR, "dex", src["name"]), "rb").read()
    from gen import dexasm
    return dexasm.assemble(src["model"])[0]


def header_faults(r, raw):
    """[(descriptor, bytes, expected_wrong: bool)]"""
    from gen.dexasm import fix_adler
    out = []
    # magic (not covered by the checksum)
    for i in range(8):
        for v in sorted({raw[i] ^ 1, raw[i] ^ 0x80, 0, 0xFF, r.randrange(256), ord("y"), ord("x")}):
            if v == raw[i]:
                continue
            b = bytearray(raw)
            b[i] = v
            m = bytes(b[:8])
            valid = m[:2] == b"de" and m[2] in (0x78, 0x79) and m[3] == 0x0A and m[7] == 0
            out.append((["magic", i, v], bytes(b), not valid))
    # rotated / shifted magics and windows of the two valid prefixes glued together (sloppy membership tests)
    glued = b"dex\ndey\ndex\n"
    for k in range(1, 8):
        for pre in (glued[k:k + 4],):
            if pre in (b"dex\n", b"dey\n"):
                continue
            b = bytearray(raw)
            b[0:4] = pre
            out.append((["magic4", pre.hex()], bytes(b), True))
    for rot in range(1, 8):
        b = bytearray(raw)
        b[0:8] = raw[rot:8] + raw[0:rot]
        out.append((["magic8", bytes(b[0:8]).hex()], bytes(b), True))
    # blank integrity fields, as a memory dump or a not yet fixed-up file would have them
    for zero_sig in (False, True):
        for cs in (0, 1, 0xFFFFFFFF):
            b = bytearray(raw)
            struct.pack_into("<I", b, 8, cs)
            if zero_sig:
                b[12:32] = bytes(20)
            import zlib
            if (zlib.adler32(bytes(b[12:])) & 0xFFFFFFFF) != cs:
                out.append((["blank", cs, int(zero_sig)], bytes(b), True))
    # endian tag (offset 40), checksum recomputed
    for v in [0x78563412, 0, 0xFFFFFFFF, 0x12345679, 0x12345600, 0x02345678] + [r.getrandbits(32) for _ in range(6)]:
        if v == 0x12345678:
            continue
        b = bytearray(raw)
        struct.pack_into("<I", b, 40, v)
        out.append((["endian_tag", v], fix_adler(b), True))
    # header size (offset 36), checksum recomputed
    for v in list(range(0, 0x201)) + [r.getrandbits(32) for _ in range(16)] + [0x70000000, 0xFFFFFFFF, 0x7000, 0x170]:
        b = bytearray(raw)
        struct.pack_into("<I", b, 36, v)
        out.append((["header_size", v], fix_adler(b), v != 0x70))
    # each wrong field again on top of a VALID variation of the magic (other version digits, dey): the rejection of a wrong
    # header size / endian tag / checksum must not depend on the version
    for ver in (b"036", b"037", b"038", b"039", b"040", b"041", b"042", b"100", b"999", b"0a0"):
        for kind in ("header_size", "endian_tag", "checksum"):
            b = bytearray(raw)
            b[4:7] = ver
            if r.random() < 0.3:
                b[2] = 0x79
            if kind == "header_size":
                v = r.choice([0x78, 0x78, 0x6C, 0x74, 0x80, 0x71, 0])
                struct.pack_into("<I", b, 36, v)
                out.append((["combo", ver.decode(), b[2], "header_size", v], fix_adler(b), True))
            elif kind == "endian_tag":
                v = r.choice([0x78563412, 0x12345679, 0])
                struct.pack_into("<I", b, 40, v)
                out.append((["combo", ver.decode(), b[2], "endian_tag", v], fix_adler(b), True))
            else:
                i = r.randrange(8, 12)
                b = bytearray(fix_adler(b))
                b[i] ^= 1 << r.randrange(8)
                out.append((["combo", ver.decode(), b[2], "checksum", i, b[i]], bytes(b), True))
    # checksum field itself
    for i in range(8, 12):
        for v in sorted({raw[i] ^ 1, raw[i] ^ 0x80, raw[i] ^ 0xFF, r.randrange(256)}):
            if v == raw[i]:
                continue
            b = bytearray(raw)
            b[i] = v
            out.append((["checksum", i, v], bytes(b), True))
    return out


OPT_SHARE = 0.2      # share of the runs that execute in an interpreter started with -O / -OO


def worker(seed):
    """one run; a seeded share of the runs executes in a child interpreter started with -O or -OO (an ambient variable of the
    simulated process: validation written as `assert` or under `if __debug__:` does not exist there)"""
    if not core.child_opt_level() and not os.environ.get("VERIF_NO_OPT_CHILD"):
        ar = core.rng(seed, "ambient")
        if ar.random() < OPT_SHARE:
            lvl = ar.choice([1, 1, 2])
            out = core.in_child_interpreter("checks.c09", "worker", [seed], lvl)
            out["faults"]["ambient:interpreter -%s" % ("O" * lvl)] = 1
            if out.get("case"):
                out["case"]["opt"] = lvl
            return out
    return _worker_here(seed)


def _worker_here(seed):
    core.use_repo()
    iosim.install()
    _wrap_cm()
    tier = os.environ.get("VERIF_TIER_NAME", "quick")
    name, raw, src = files_for(seed, tier)
    if len(raw) > 8192:
        return {"problems": [], "digest": core.digest_of([name, "too-big"]), "probes": {}, "faults": {}, "units": 0,
                "nontrivial": False, "sample": None, "case": None, "cases": 0, "skipped": {"file-larger-than-8KB": 1}, "extra": {}}
    v, d = check_one(raw)
    if v != "accepted":
        raise HarnessError(f"pristine file {name} is not accepted by DEX(): {v} {d} (generator or corpus problem)")
    v, d = check_one(raw, "odex")
    if v != "accepted":
        raise HarnessError(f"pristine file {name} is not accepted by ODEX(): {v} {d}")
    v, d = check_one(raw, "apk")
    if v != "accepted":
        raise HarnessError(f"pristine file {name} is not accepted by DEX(APK object): {v} {d}")
    pr = iosim.parse("dex", raw, keep_log=True, clock=False)
    structural = bytearray(len(raw))
    for sid, pos, asked, got in pr["log"]:
        if sid == 1 and asked >= 0 and got > 0 and pos >= 0:
            structural[pos:pos + got] = b"\x01" * got
    r = core.rng(seed, "faults")
    all_values = tier == "thorough" or len(raw) <= 700
    problems = {}
    n = 0
    nontriv = 0
    exc_kinds = {}
    fired = {"stored-byte": 0, "header-field": 0}
    skipped = {}
    for off in range(12, len(raw)):
        orig = raw[off]
        if all_values:
            vals = [x for x in range(256) if x != orig]
        else:
            vals = sorted({orig ^ 0x01, orig ^ 0x80, orig ^ 0xFF, (orig + 1 + r.randrange(255)) % 256} - {orig})
        b = bytearray(raw)
        for val in vals:
            b[off] = val
            entry = "odex" if (off + val) % 5 == 0 else ("apk" if (off * 7 + val) % 53 == 0 else "dex")
            verdict, detail = check_one(bytes(b), entry)
            if entry == "odex":
                fired["entry:ODEX(buf)"] = fired.get("entry:ODEX(buf)", 0) + 1
            elif entry == "apk":
                fired["entry:DEX(APK object)"] = fired.get("entry:DEX(APK object)", 0) + 1
            n += 1
            fired["stored-byte"] += 1
            if structural[off]:
                nontriv += 1
            if verdict == "rejected":
                exc_kinds[detail] = exc_kinds.get(detail, 0) + 1
                continue
            sig = f"C09:{verdict}:{region_of(raw, off)}" + (":via-ODEX" if entry == "odex" else (":via-APK-object" if entry == "apk" else "")) \
                + core.opt_suffix()
            if sig not in problems:
                problems[sig] = {"msg": f"{name}: byte at offset {off} changed {orig:#04x} -> {val:#04x}: {verdict} ({detail})"
                                        + (" through ODEX(buf)" if entry == "odex" else (" through DEX(APK object)" if entry == "apk" else "")),
                                 "fault": ["byte", off, val, entry]}
    for desc, buf, wrong in header_faults(r, raw):
        if not wrong:
            skipped["valid-header-value-not-expected-to-be-rejected"] = skipped.get("valid-header-value-not-expected-to-be-rejected", 0) + 1
            continue
        entry = "odex" if (n % 4 == 3 and desc[0] not in ("magic", "magic4", "magic8")) else "dex"
        verdict, detail = check_one(buf, entry)
        n += 1
        nontriv += 1
        fired["header-field"] += 1
        if verdict == "rejected":
            exc_kinds[detail] = exc_kinds.get(detail, 0) + 1
            continue
        sig = f"C09:{verdict}:header-field:{desc[3] if desc[0] == 'combo' else desc[0]}" + (":via-ODEX" if entry == "odex" else "") \
            + core.opt_suffix()
        if sig not in problems:
            problems[sig] = {"msg": f"{name}: header fault {desc}: {verdict} ({detail})" + (" through ODEX(buf)" if entry == "odex" else ""),
                             "fault": ["header"] + desc + ([{"entry": "odex"}] if entry == "odex" else [])}
    case = {"seed": seed, "src": src, "by_sig": {s: p["fault"] for s, p in problems.items()}} if problems else None
    sample = {"seed": seed, "file": name, "bytes": len(raw), "offsets": len(raw) - 12, "values_per_offset": 255 if all_values else 4,
              "example_fault": ["byte", 12 + (seed % max(1, len(raw) - 12)), "xor 0x01"], "rejections": exc_kinds} if seed % 3 == 0 else None
    return {"problems": [(s, p["msg"]) for s, p in sorted(problems.items())],
            "digest": core.digest_of([name if name != "generated" else seed, n, sorted(exc_kinds.items()), sorted(problems)]),
            "probes": {"rejected-" + k: v for k, v in exc_kinds.items()}, "faults": fired, "units": n, "nontrivial": False,
            "cases": n, "nt_count": nontriv, "sample": sample, "case": case, "skipped": skipped,
            "extra": {"nontrivial_faults": nontriv, "files": 1, "files_all_255": 1 if all_values else 0,
                      "file_bytes": len(raw)}}


def digest_for_index(base, i):
    out = worker(core.derive_seed(PROP, base, i))
    return out["digest"] + ":" + ",".join(sorted(s for s, _ in out["problems"]))


def _apply(raw, fault):
    from gen.dexasm import fix_adler
    b = bytearray(raw)
    if fault[0] == "byte":
        b[fault[1]] = fault[2]
        return bytes(b)
    kind = fault[1]
    if kind == "combo":
        _, _, ver, m2, field = fault[:5]
        b[4:7] = ver.encode()
        b[2] = m2
        if field == "header_size":
            struct.pack_into("<I", b, 36, fault[5])
            return fix_adler(b)
        if field == "endian_tag":
            struct.pack_into("<I", b, 40, fault[5])
            return fix_adler(b)
        b = bytearray(fix_adler(b))
        b[fault[5]] = fault[6]
        return bytes(b)
    if kind == "magic4":
        b[0:4] = bytes.fromhex(fault[2])
        return bytes(b)
    if kind == "magic8":
        b[0:8] = bytes.fromhex(fault[2])
        return bytes(b)
    if kind == "blank":
        struct.pack_into("<I", b, 8, fault[2])
        if fault[3]:
            b[12:32] = bytes(20)
        return bytes(b)
    if kind in ("magic", "checksum"):
        b[fault[2]] = fault[3]
        return bytes(b)
    if kind == "endian_tag":
        struct.pack_into("<I", b, 40, fault[2])
    elif kind == "header_size":
        struct.pack_into("<I", b, 36, fault[2])
    return fix_adler(b)


def _sig(raw, fault):
    # the same history as in the worker: the pristine file is parsed first (and must be accepted), then the faulted copy
    entry = "dex"
    if fault[0] == "byte" and len(fault) > 3:
        entry = fault[3]
    if fault[0] == "header" and isinstance(fault[-1], dict):
        entry = fault[-1].get("entry", "dex")
        fault = fault[:-1]
    v0, d0 = check_one(raw, entry)
    if v0 != "accepted":
        raise HarnessError(f"pristine file is not accepted by {entry}: {v0} {d0}")
    verdict, detail = check_one(_apply(raw, fault), entry)
    if verdict == "rejected":
        return None, detail
    tail = (":via-ODEX" if entry == "odex" else (":via-APK-object" if entry == "apk" else "")) + core.opt_suffix()
    if fault[0] == "byte":
        return f"C09:{verdict}:{region_of(raw, fault[1])}" + tail, detail
    return f"C09:{verdict}:header-field:{fault[5 - 1] if fault[1] == 'combo' else fault[1]}" + tail, detail


def minimise(case, sig):
    return {"seed": case["seed"], "src": case["src"], "fault": case["by_sig"][sig], "opt": case.get("opt", 0)}, \
        {"note": "a single-byte / single-field fault is minimal"}


def _sig_from_source(src, fault):
    core.use_repo()
    iosim.install()
    _wrap_cm()
    return _sig(_src_bytes(src), fault)


def write_replay(case, sig, msg, info):
    if "by_sig" in case:
        case = {"seed": case["seed"], "src": case["src"], "fault": case["by_sig"][sig], "opt": case.get("opt", 0)}
    core.use_repo()
    iosim.install()
    _wrap_cm()
    raw = _src_bytes(case["src"])
    if case.get("opt"):
        got, detail = core.in_child_interpreter("checks.c09", "_sig_from_source", [case["src"], case["fault"]], case["opt"])
    else:
        got, detail = core.isolated(_sig, raw, case["fault"])
    if got != sig:
        return None
    payload = {"property": PROP, "engine": "iosim", "seed": case["seed"], "config": {"python_optimize": case.get("opt", 0)},
               "source": case["src"],
               "faults": [case["fault"]], "ops": [["DEX(buf)"]], "decisions": [],
               "violation": {"class": sig.split(":")[1], "signature": sig, "message": msg},
               "digest": core.digest_of([sig, detail]), "minimised_from": info}
    return core.write_replay(PROP, "%s-%016x" % (sig.replace(":", "_"), case["seed"]), payload)


def evidence_extra(agg):
    files = agg["extra"].get("files", 0)
    all255 = agg["extra"].get("files_all_255", 0)
    return {"distinct_nontrivial": int(agg["extra"].get("nontrivial_faults", 0)),
            "exhaustive": bool(files and files == all255),
            "files": files, "files_with_all_255_values_enumerated": all255, "bytes_of_files": agg["extra"].get("file_bytes", 0),
            "interleavings": {"measure": "none: the schedule is degenerate (one parse, one thread); the enumerated dimension is the fault",
                              "distinct": 1, "possible": 1}}


def run(tier):
    os.environ["VERIF_TIER_NAME"] = tier
    return driver.explore(__import__("checks.c09", fromlist=["x"]), tier)


def replay(path):
    def rerun(rp):
        iosim.install()
        _wrap_cm()
        raw = _src_bytes(rp["source"])
        opt = (rp.get("config") or {}).get("python_optimize", 0)
        if opt:
            got, detail = core.in_child_interpreter("checks.c09", "_sig_from_source", [rp["source"], rp["faults"][0]], opt)
        else:
            got, detail = _sig(raw, rp["faults"][0])
        return ({got} if got else set()), core.digest_of([got, detail]), [f"verdict detail: {detail}"]
    return driver.replay_common(__import__("checks.c09", fromlist=["x"]), path, rerun)
