"""C17 -- renaming changes exactly the renamed item, for any sequence of renames (DESIGN.md 4.3).

Engine: seeded history search with a dictionary reference model; no seam is replaced (all code real).
"""
from __future__ import annotations

import os

from simkit import core, driver
from simkit.core import HarnessError

PROP = "C17"
LEVEL = "exploration"
TIERS = {"quick": dict(runs=12000, wall=1400, chunk=250), "thorough": dict(runs=600000, wall=5400, chunk=500)}
TIME_UNIT = "operations (rename/reload/query/disassemble) -- no clock in the code under test"
RULE = ("one evaluation = one seeded history of rename/reload/query/disassemble operations on one DEX object, checked "
        "against a dictionary model of current names; distinct = distinct event-log digests; non-trivial = the history "
        "renamed an item and later observed (query, reload or disassembly) a different item or string constant that shares "
        "the old or new name")
COMPONENTS = {"real": ["androguard.core.dex.DEX", "ClassManager hooks", "EncodedMethod/EncodedField/ClassDefItem set_name/reload/get_name",
                       "Instruction.get_output"],
              "stub": ["none (the simulator owns only the order and arguments of API calls)"]}
ASSUMPTIONS = ["the reference model is a dictionary item -> current name updated only by rename operations",
               "initial names are read from a separate pristine parse of the same bytes",
               "no I/O faults exist for this property: the searched space is operation order and argument choice"]

CORPUS = ["Test.dex", "AnalysisTest.dex", "ExceptionHandling.dex", "FieldsTest.dex", "InterfaceCls.dex", "StringTests.dex"]
KINDS = {"c": "class", "m": "method", "f": "field"}

_RAW_CACHE = {}


def _raw(source):
    if source["kind"] == "corpus":
        p = os.path.join(core.CORPUS_DIR, "dex", source["file"])
        if p not in _RAW_CACHE:
            with open(p, "rb") as f:
                _RAW_CACHE[p] = f.read()
        return _RAW_CACHE[p]
    from gen import dexasm
    raw, layout = dexasm.assemble(source["model"])
    return raw


def _load(raw):
    from androguard.core import dex
    d = dex.DEX(raw)
    return d, {"c": list(d.get_classes()), "m": list(d.get_encoded_methods()), "f": list(d.get_encoded_fields())}


def _const_strings(items):
    """[(method index, instruction index, output text)] for every const-string[/jumbo]"""
    out = []
    for mi, m in enumerate(items["m"]):
        if m.get_code() is None:
            continue
        for ii, ins in enumerate(m.get_instructions()):
            if ins.get_op_value() in (0x1A, 0x1B):
                out.append((mi, ii, ins.get_output()))
    return out


def draw_case(seed):
    r = core.rng(seed, "workload")
    if r.random() < 0.75:
        from gen import models
        source = {"kind": "gen", "model": models.share_model(r)}
    else:
        source = {"kind": "corpus", "file": r.choice(CORPUS)}
    raw = _raw(source)
    d, items = _load(raw)
    names = {k: [str(x.get_name()) for x in items[k]] for k in "cmf"}
    consts = sorted({t for _, _, t in _const_strings(items)})
    n = {k: len(items[k]) for k in "cmf"}
    ops = []
    length = r.choice([1, 2, 2, 3, 3, 4, 5, 6, 8, 12, 20, 30])
    fresh = [0]
    current = {k: list(v) for k, v in names.items()}

    def pick(kind=None):
        ks = [k for k in "cmf" if n[k]]
        k = kind or r.choice(ks)
        return k, r.randrange(n[k])

    def new_name(k, i):
        c = r.random()
        if c > 0.93:
            return current[k][i]          # rename to the name the item already carries (idempotent rename)
        if k == "c":
            if c < 0.5:
                fresh[0] += 1
                return "Ln/N%d;" % fresh[0]
            if c < 0.58 and n["c"] > 1:
                return current["c"][r.randrange(n["c"])]     # the current name of some (other) class: a collision
            if c < 0.66 and n["c"] > 1:
                return names["c"][r.randrange(n["c"])]       # the ORIGINAL name of some class (possibly freed by an earlier rename)
            if c < 0.8:
                return names[k][i]
            return r.choice([s.split('"')[1] for s in consts if '"L' in s and ';"' in s] or ["Lz/Z;"])
        if c < 0.07:
            # legal compiler-style spellings
            return r.choice(["this$0", "val$x", "<tmp>", "access$000", "$VALUES", "a-b", "x$y$z", "<clinit>"])
        if c < 0.35:
            fresh[0] += 1
            return "n%d" % fresh[0]
        if c < 0.6:                       # a name currently used by some other item
            k2 = r.choice([x for x in "mf" if n[x]])
            return r.choice(current[k2])
        if c < 0.75:
            return names[k][i]            # rename back to the original
        if c < 0.9 and consts:
            t = r.choice(consts)
            return t.split('"')[1] if '"' in t else "q"
        return r.choice(["a", "<init>", "b"])

    if r.random() < 0.2:
        ops.append(["python-export"])          # DEX.create_python_export(): renames then also maintain the exported attributes
    for _ in range(length):
        c = r.random()
        if c < 0.45:
            k, i = pick()
            v = new_name(k, i)
            ops.append(["rename", k, i, v])
            current[k][i] = v
        elif c < 0.65:
            k, i = pick()
            ops.append(["reload", k, i])
        elif c < 0.85:
            k, i = pick()
            ops.append(["query", k, i])
        elif c < 0.95 and n["m"]:
            ops.append(["disasm", r.randrange(n["m"])])
        else:
            ops.append(["observe-all"])
    return {"seed": seed, "source": source, "ops": ops}


def execute(case):
    raw = _raw(case["source"])
    d0, items0 = _load(raw)
    orig = {k: [str(x.get_name()) for x in items0[k]] for k in "cmf"}
    consts0 = _const_strings(items0)
    const_by_m = {}
    for mi, ii, t in consts0:
        const_by_m.setdefault(mi, []).append((ii, t))
    d, items = _load(raw)
    model = {k: list(v) for k, v in orig.items()}
    history = {}                 # (kind, idx) -> [names given so far]
    log = core.EventLog()
    problems = []
    seen = set()
    probes = {}
    sharing_observed = [False]
    renamed_values = []          # (kind, idx, old, new)

    def probe(n):
        probes[n] = probes.get(n, 0) + 1

    def shares(k, i):
        """does the never-renamed item (k,i) share its name string with the old or new name of a renamed item?"""
        nm = orig[k][i]
        return any(nm == old or nm == new for (k2, i2, old, new) in renamed_values if (k2, i2) != (k, i))

    def report(sig, msg):
        if sig not in seen:
            seen.add(sig)
            problems.append((sig, msg))

    def classify_leak(observed):
        for (k2, i2, old, new) in reversed(renamed_values):
            if new == observed:
                return KINDS[k2]
        return "unknown"

    def check_item(k, i, step):
        got = str(items[k][i].get_name())
        want = model[k][i]
        log.add(step, "name", [k, i, got])
        if (k, i) not in history and shares(k, i):
            sharing_observed[0] = True
            probe("observed-unrenamed-item-sharing-a-renamed-name")
        if got == want:
            return
        if (k, i) in history:
            if got == orig[k][i]:
                cls = "revert"
            elif got in history[(k, i)]:
                cls = "stale"
            else:
                cls = "wrong"
            report(f"C17:{cls}:{KINDS[k]}", f"step {step}: {KINDS[k]} #{i} was renamed to {want!r} but reports {got!r}")
        else:
            report(f"C17:leak:{classify_leak(got)}->{KINDS[k]}",
                   f"step {step}: {KINDS[k]} #{i} was never renamed (original {want!r}) but reports {got!r}")

    def check_consts(mi, step):
        m = items["m"][mi]
        if m.get_code() is None:
            return
        want = const_by_m.get(mi, [])
        if not want:
            return
        insns = list(m.get_instructions())
        for ii, t in want:
            got = insns[ii].get_output() if ii < len(insns) else "<missing>"
            log.add(step, "const", [mi, ii, got])
            lit = t.split('"')[1] if '"' in t else None
            if lit is not None and any(lit == old or lit == new for (_, _, old, new) in renamed_values):
                sharing_observed[0] = True
                probe("observed-const-string-sharing-a-renamed-name")
            if got != t:
                lit_got = got.split('"')[1] if '"' in got else got
                report(f"C17:leak:{classify_leak(lit_got)}->const-string",
                       f"step {step}: const-string at method #{mi} insn {ii} was {t!r}, now {got!r}")

    step = 0
    for step, op in enumerate(case["ops"]):
        log.add(step, "op", op)
        kind = op[0]
        try:
            if kind == "rename":
                _, k, i, v = op
                if i >= len(items[k]):
                    continue
                old = model[k][i]
                items[k][i].set_name(v)
                model[k][i] = v
                history.setdefault((k, i), [orig[k][i]]).append(v)
                renamed_values.append((k, i, old, v))
                check_item(k, i, step)
            elif kind == "reload":
                _, k, i = op
                if i >= len(items[k]):
                    continue
                if (k, i) not in history and shares(k, i):
                    probe("reload-of-unrenamed-item-sharing-a-renamed-name")
                items[k][i].reload()
                check_item(k, i, step)
            elif kind == "query":
                _, k, i = op
                if i >= len(items[k]):
                    continue
                check_item(k, i, step)
            elif kind == "disasm":
                if op[1] < len(items["m"]):
                    check_consts(op[1], step)
            elif kind == "python-export":
                d.create_python_export()
            elif kind == "observe-all":
                for k in "cmf":
                    for i in range(len(items[k])):
                        check_item(k, i, step)
        except HarnessError:
            raise
        except Exception as e:
            report(f"C17:exception:{type(e).__name__}:{kind}", f"step {step}: {op} raised {type(e).__name__}: {e}")
    # final full comparison (kept for the end so that the oracle does not perturb lazy loading mid-history)
    for k in "cmf":
        for i in range(len(items[k])):
            check_item(k, i, "end")
    for mi in range(len(items["m"])):
        check_consts(mi, "end")
    # bystanders: the items of OTHER DEX objects in the same process were never renamed either.  The pristine object
    # parsed before the history is reloaded and a fresh object is parsed after it; both must still report the original names.
    nren_any = any(op[0] == "rename" for op in case["ops"])
    if nren_any:
        for label, obj in (("object-parsed-before", items0), ("object-parsed-after", _load(raw)[1])):
            for k in "cmf":
                for i, it in enumerate(obj[k]):
                    if label == "object-parsed-before":
                        try:
                            it.reload()
                        except Exception as e:
                            report(f"C17:exception:{type(e).__name__}:reload-bystander", f"{label}: reload raised {e}")
                            continue
                    got = str(it.get_name())
                    log.add("end", "bystander", [label, k, i, got])
                    if got != orig[k][i]:
                        report(f"C17:leak:{classify_leak(got)}->other-dex-object",
                               f"{label}: {KINDS[k]} #{i} of another DEX object (same bytes, never renamed) reports {got!r}, "
                               f"original {orig[k][i]!r}")
        probe("bystander-dex-objects-compared")
    nren = sum(1 for op in case["ops"] if op[0] == "rename")
    return {"problems": problems, "digest": log.digest(), "probes": probes, "units": len(case["ops"]),
            "nontrivial": bool(nren and sharing_observed[0]), "log": log.events,
            "extra": {"renames": nren, "items": sum(len(items[k]) for k in "cmf")}}


def worker(seed):
    core.use_repo()
    case = draw_case(seed)
    out = execute(case)
    log = out.pop("log")
    out["faults"] = {}
    out["sample"] = None
    if out["nontrivial"] and (seed % 97) == 0:
        out["sample"] = {"seed": seed, "source": case["source"]["kind"], "ops": case["ops"][:12],
                         "verdict": sorted({s for s, _ in out["problems"]}) or "held"}
    out["case"] = case if out["problems"] else None
    return out


def digest_for_index(base, i):
    out = worker(core.derive_seed(PROP, base, i))
    return out["digest"] + ":" + ",".join(sorted(s for s, _ in out["problems"]))


def minimise(case, sig):
    tests = [0]

    def fails(ops):
        tests[0] += 1
        c = dict(case, ops=ops)
        return sig in {s for s, _ in core.isolated(execute, c)["problems"]}

    ops = core.ddmin(case["ops"], fails, max_tests=300)
    # shrink arguments: shorter new names
    for j, op in enumerate(ops):
        if op[0] == "rename" and len(op[3]) > 2 and op[1] != "c":
            trial = [list(o) for o in ops]
            trial[j][3] = "z"
            if tests[0] < 300 and fails(trial):
                ops = trial
    return dict(case, ops=ops), {"from_ops": len(case["ops"]), "shrink_runs": tests[0]}


def write_replay(case, sig, msg, info):
    out = core.isolated(execute, case)
    sigs = {s: m for s, m in out["problems"]}
    if sig not in sigs:
        return None
    payload = {"property": PROP, "engine": "histsim", "seed": case["seed"], "config": {}, "source": case["source"],
               "ops": case["ops"], "decisions": [], "faults": [],
               "violation": {"class": sig.split(":")[1], "signature": sig, "message": sigs[sig]},
               "digest": out["digest"], "trace": [list(e) for e in out["log"]][:300], "minimised_from": info}
    name = "%s-%016x" % (sig.replace(":", "_").replace(">", "").replace("/", "_"), case["seed"])
    return core.write_replay(PROP, name, payload)


def evidence_extra(agg):
    return {"histories": agg["runs"], "rename_operations": agg["extra"].get("renames", 0)}


def run(tier):
    return driver.explore(__import__("checks.c17", fromlist=["x"]), tier)


def replay(path):
    def rerun(rp):
        out = execute({"seed": rp["seed"], "source": rp["source"], "ops": rp["ops"]})
        return {s for s, _ in out["problems"]}, out["digest"], [f"{s}: {m}" for s, m in out["problems"]]
    return driver.replay_common(__import__("checks.c17", fromlist=["x"]), path, rerun)
