"""Writes seeded/README.md from seeded/*/meta.json and result.json (selftest/sensitivity.py)."""
import glob
import json
import os

rows = []
for d in sorted(glob.glob("seeded/*/")):
    sid = os.path.basename(d.rstrip("/"))
    if not os.path.exists(d + "meta.json"):
        continue
    m = json.load(open(d + "meta.json"))
    r = json.load(open(d + "result.json")) if os.path.exists(d + "result.json") else {}
    caught = r.get("caught")
    sig = ""
    if r.get("violations"):
        v = r["violations"][0]
        sig = v.split("signature=")[1].split(" ")[0] if "signature=" in v else ""
    rows.append((sid, m["property"], m.get("what", ""), m.get("needs_to_manifest", ""),
                 "caught" if caught else ("MISSED (exit %s)" % r.get("exit") if r else "not run"), sig, m.get("note", "")))
out = ["# Seeded changes", "",
       "Each directory holds one change to androguard that breaks one property while the existing tests still pass",
       "(`patch.diff`, the author's demonstration `demo.py`, `notes.md`, `meta.json`, and `result.json` = outcome of",
       "`selftest/sensitivity.py <id>`: scratch copy of `/repo/androguard` + patch, then `./check <property> quick`).",
       "All of them were written by fresh sub-agents that saw only the property text and their own scratch worktree.",
       "None is ever committed to `/repo`.", "",
       "| id | property | change | needs | quick check | first signature reported |", "|---|---|---|---|---|---|"]
for sid, prop, what, needs, res, sig, note in rows:
    out.append(f"| {sid} | {prop} | {what} | {needs} | {res} | `{sig}` {note} |")
n = sum(1 for r in rows if r[4] == "caught")
out += ["", f"{n} of {len(rows)} caught by the quick tier of the check of their property."]
open("seeded/README.md", "w").write("\n".join(out) + "\n")
print(n, "of", len(rows))
