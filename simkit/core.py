"""simkit.core -- shared machinery of the deterministic simulator (DESIGN.md section 3).

One integer (VERIF_SEED) decides everything: per-run seeds are derived with
blake2b, every decision inside a run is drawn from a *named sub-stream* so that
adding a fault kind never shifts the schedule of existing seeds.  Logging never
draws from a stream and never reads a real clock.
"""
from __future__ import annotations

import hashlib
import json
import os
import random
import sys
import time

VERIF_DIR = os.path.dirname(os.path.dirname(os.path.abspath(__file__)))
OUT_DIR = os.path.join(VERIF_DIR, "out")
# sensitivity runs (checks against a deliberately broken scratch copy) must not overwrite the evidence of the real tree
EVIDENCE_DIR = os.environ.get("VERIF_EVIDENCE_DIR") or os.path.join(VERIF_DIR, "evidence")
CORPUS_DIR = os.path.join(VERIF_DIR, "corpus")
FINDINGS_FILE = os.path.join(VERIF_DIR, "known_findings.json")


class HarnessError(Exception):
    """The harness could not decide (exit 2).  Never a VIOLATION."""


# --------------------------------------------------------------------------
# seeds and streams
# --------------------------------------------------------------------------

def base_seed() -> int:
    try:
        return int(os.environ.get("VERIF_SEED", "0"))
    except ValueError:
        return 0


def derive_seed(prop: str, base: int, i) -> int:
    h = hashlib.blake2b(f"{prop}:{base}:{i}".encode(), digest_size=8).digest()
    return int.from_bytes(h, "big")


def rng(seed: int, label: str) -> random.Random:
    h = hashlib.blake2b(f"{seed}|{label}".encode(), digest_size=16).digest()
    return random.Random(int.from_bytes(h, "big"))


# --------------------------------------------------------------------------
# event log
# --------------------------------------------------------------------------

def canon(obj) -> str:
    return json.dumps(obj, sort_keys=True, separators=(",", ":"), default=_json_default)


def _json_default(o):
    if isinstance(o, (bytes, bytearray)):
        return "hex:" + bytes(o).hex()
    if isinstance(o, (set, frozenset)):
        return sorted(o, key=repr)
    if isinstance(o, tuple):
        return list(o)
    return repr(o)


class EventLog:
    """(seq, actor, kind, detail) tuples; seq is the global event counter."""

    __slots__ = ("events", "_h", "keep")

    def __init__(self, keep: bool = True):
        self.events = []
        self._h = hashlib.sha256()
        self.keep = keep

    def add(self, actor, kind, detail=None):
        seq = len(self.events) if self.keep else 0
        ev = (seq, actor, kind, detail)
        self._h.update(canon(ev[1:]).encode())
        self._h.update(b"\n")
        if self.keep:
            self.events.append(ev)

    def digest(self) -> str:
        return self._h.hexdigest()[:24]


def digest_of(obj) -> str:
    return hashlib.sha256(canon(obj).encode()).hexdigest()[:24]


# --------------------------------------------------------------------------
# repo under test
# --------------------------------------------------------------------------

def repo_root() -> str:
    return os.path.abspath(os.environ.get("VERIF_REPO", "/repo"))


_REPO_READY = False


def use_repo():
    """Make `import androguard` resolve to VERIF_REPO's working tree (never a cached copy)."""
    global _REPO_READY
    if _REPO_READY:
        return
    root = repo_root()
    sys.dont_write_bytecode = True
    if root in sys.path:
        sys.path.remove(root)
    sys.path.insert(0, root)
    try:
        from loguru import logger
        logger.remove()
    except Exception:
        pass
    import logging
    logging.disable(logging.CRITICAL)     # apkInspector logs through the stdlib; never part of a verdict
    import androguard  # noqa
    f = os.path.abspath(androguard.__file__)
    if not f.startswith(root + os.sep):
        raise HarnessError(f"androguard imported from {f}, expected under {root}")
    _REPO_READY = True


def repo_rev() -> str:
    """git HEAD + hash of the androguard/ working tree (so a replay names its code)."""
    root = repo_root()
    h = hashlib.sha256()
    pkg = os.path.join(root, "androguard")
    for dp, dn, fn in sorted(os.walk(pkg)):
        dn.sort()
        if "__pycache__" in dp:
            continue
        for f in sorted(fn):
            if f.endswith(".py"):
                p = os.path.join(dp, f)
                h.update(os.path.relpath(p, root).encode())
                with open(p, "rb") as fh:
                    h.update(hashlib.sha256(fh.read()).digest())
    head = "nogit"
    try:
        import subprocess
        head = subprocess.run(["git", "-C", root, "rev-parse", "--short", "HEAD"],
                              capture_output=True, text=True, timeout=10).stdout.strip() or "nogit"
    except Exception:
        pass
    return f"{head}+{h.hexdigest()[:12]}"


# --------------------------------------------------------------------------
# known findings
# --------------------------------------------------------------------------

class Findings:
    def __init__(self, prop: str):
        self.prop = prop
        self.known = {}   # signature -> what
        self.fixed = {}
        try:
            with open(FINDINGS_FILE) as f:
                data = json.load(f)
        except FileNotFoundError:
            data = {"findings": []}
        for e in data.get("findings", []):
            if e.get("property") != prop:
                continue
            if e.get("status") == "known":
                self.known[e["signature"]] = e.get("what", "")
            elif e.get("status") == "fixed":
                self.fixed[e["signature"]] = e.get("what", "")
        self.matched = {}  # signature -> count

    def is_known(self, signature: str) -> bool:
        if signature in self.known:
            self.matched[signature] = self.matched.get(signature, 0) + 1
            return True
        return False

    def note(self, signature: str, n: int = 1):
        self.matched[signature] = self.matched.get(signature, 0) + n

    def print_known(self):
        for sig in sorted(self.matched):
            if sig in self.known:
                print(f"KNOWN-FINDING: property={self.prop} {sig} -- {self.known[sig]} (seen {self.matched[sig]}x)")


# --------------------------------------------------------------------------
# replay files
# --------------------------------------------------------------------------

def write_replay(prop: str, name: str, payload: dict) -> str:
    d = os.path.join(OUT_DIR, prop)
    os.makedirs(d, exist_ok=True)
    path = os.path.join(d, name + ".json")
    payload = dict(payload)
    payload.setdefault("property", prop)
    payload.setdefault("repo_rev", repo_rev())
    with open(path, "w") as f:
        json.dump(payload, f, indent=1, sort_keys=True, default=_json_default)
    return path


def load_replay(path: str) -> dict:
    with open(path) as f:
        return json.load(f)


# --------------------------------------------------------------------------
# evidence
# --------------------------------------------------------------------------

def write_evidence(prop: str, tier: str, seed: int, level: str, coverage: dict,
                   wall_s: float, violations: int, assumptions: list):
    os.makedirs(EVIDENCE_DIR, exist_ok=True)
    ev = {
        "property_id": prop,
        "tier": tier,
        "seed": seed,
        "level": level,
        "coverage": coverage,
        "assumptions": assumptions,
        "wall_s": round(wall_s, 2),
        "violations": violations,
        "repo_rev": repo_rev(),
    }
    if CUT_SHORT[0]:
        ev["coverage"] = dict(coverage, batch_cut_short_after_first_violation=True)
    path = os.path.join(EVIDENCE_DIR, prop + ".json")
    tmp = path + ".tmp.%d" % os.getpid()
    with open(tmp, "w") as f:
        json.dump(ev, f, indent=1, sort_keys=True, default=_json_default)
    os.replace(tmp, path)
    return path


# --------------------------------------------------------------------------
# batch runner
# --------------------------------------------------------------------------

def n_jobs() -> int:
    try:
        return max(1, int(os.environ.get("VERIF_JOBS", "0")) or (os.cpu_count() or 4))
    except ValueError:
        return os.cpu_count() or 4


def _worker_entry(fn, chunk):
    import faulthandler
    faulthandler.enable()
    out = []
    for item in chunk:
        out.append(fn(item))
    return out


def run_batch(fn, items, wall_cap_s: float, chunk: int = 1, jobs: int | None = None,
              on_result=None, start: str = "fork", stop_when=None):
    """Run fn(item) for each item in forked worker processes.

    Results are delivered to on_result *in item order* (so aggregation does not
    depend on completion order).  A worker death or the wall cap is a
    HarnessError (exit 2), never exit 0 and never a VIOLATION.

    stop_when(result) -> bool (only honoured with VERIF_STOP_EARLY=1, which selftest/sensitivity.py sets): stop handing
    out work once a finished run satisfies it.  The runs that did finish are a subset of the full batch, so whatever they
    report the full batch reports too; a batch that was cut short says so in its summary and never counts as evidence.
    """
    import concurrent.futures as cf
    import multiprocessing as mp
    jobs = jobs or n_jobs()
    items = list(items)
    chunks = [items[i:i + chunk] for i in range(0, len(items), chunk)]
    results = [None] * len(chunks)
    t0 = time.monotonic()
    early = stop_when if os.environ.get("VERIF_STOP_EARLY") == "1" else None
    pending = set()
    if jobs == 1:
        for ci, ch in enumerate(chunks):
            if time.monotonic() - t0 > wall_cap_s:
                raise HarnessError("wall cap hit")
            results[ci] = _worker_entry(fn, ch)
            if early and any(early(r) for r in results[ci]):
                break
    else:
        # start="spawn": workers are fresh interpreters.  Needed when the workers fork a lot themselves:
        # processes forked from one ancestor share its anon_vma root lock in the kernel, and fork/COW
        # faults then serialise across all 16 workers (measured: 40x slowdown for procsim).
        ctx = mp.get_context(start)
        ex = cf.ProcessPoolExecutor(max_workers=jobs, mp_context=ctx)
        try:
            futs = {ex.submit(_worker_entry, fn, ch): ci for ci, ch in enumerate(chunks)}
            pending = set(futs)
            while pending:
                left = wall_cap_s - (time.monotonic() - t0)
                if left <= 0:
                    raise HarnessError(f"wall cap {wall_cap_s}s hit with {len(pending)} chunks pending")
                done, pending = cf.wait(pending, timeout=min(left, 5.0),
                                        return_when=cf.FIRST_COMPLETED)
                hit = False
                for f in done:
                    try:
                        results[futs[f]] = f.result()
                    except cf.process.BrokenProcessPool as e:
                        raise HarnessError(f"worker died: {e}")
                    if early and any(early(r) for r in results[futs[f]]):
                        hit = True
                if hit:
                    break
        finally:
            procs = list((getattr(ex, "_processes", None) or {}).values())
            ex.shutdown(wait=False, cancel_futures=True)
            if pending:
                for p in procs:
                    try:
                        p.kill()
                    except Exception:
                        pass
    flat = []
    for ch, r in zip(chunks, results):
        if r is None:
            continue              # not run: the batch was cut short (VERIF_STOP_EARLY)
        for it, x in zip(ch, r):
            flat.append(x)
            if on_result:
                on_result(it, x)
    CUT_SHORT[0] = any(r is None for r in results)
    return flat


CUT_SHORT = [False]


def isolated(fn, *args):
    """Run fn(*args) in a forked child of this process and return its (picklable) result.

    Used by the main harness process for everything that executes code under test outside the worker pool (confirmation,
    minimisation, replay-file writing): the main process itself never runs a case, so every such execution starts from
    the same clean module state, whatever the code under test leaves behind (caches, counters, class attributes).
    """
    import pickle
    r, w = os.pipe()
    pid = os.fork()
    if pid == 0:
        code = 0
        try:
            os.close(r)
            try:
                out = ("ok", fn(*args))
            except HarnessError as e:
                out = ("harness", str(e))
            except BaseException:  # noqa
                import traceback
                out = ("harness", "unexpected exception in isolated call: " + traceback.format_exc()[-1200:])
            with os.fdopen(w, "wb") as f:
                pickle.dump(out, f, protocol=4)
        except BaseException:  # noqa
            code = 3
        finally:
            os._exit(code)
    os.close(w)
    with os.fdopen(r, "rb") as f:
        data = f.read()
    _, status = os.waitpid(pid, 0)
    if status != 0 or not data:
        raise HarnessError(f"isolated call died (status {status})")
    kind, out = pickle.loads(data)
    if kind != "ok":
        raise HarnessError(out)
    return out


# --------------------------------------------------------------------------
# another interpreter configuration as an ambient variable of the simulated process
# --------------------------------------------------------------------------

_CHILD_SRC = r"""
import importlib, os, pickle, sys, traceback
path = sys.argv[3]
try:
    import ctypes, signal
    ctypes.CDLL(None).prctl(1, int(signal.SIGKILL))      # PR_SET_PDEATHSIG: do not outlive a worker that is killed
except Exception:
    pass
try:
    args = pickle.loads(sys.stdin.buffer.read())
    mod = importlib.import_module(sys.argv[1])
    try:
        out = ("ok", getattr(mod, sys.argv[2])(*args))
    except Exception as e:
        out = ("harness" if type(e).__name__ == "HarnessError" else "error", traceback.format_exc()[-1500:])
except BaseException:
    out = ("error", traceback.format_exc()[-1500:])
with open(path, "wb") as f:
    pickle.dump(out, f, protocol=4)
"""


def child_opt_level() -> int:
    """optimisation level of THIS interpreter when it was started by in_child_interpreter (else 0)"""
    return int(os.environ.get("VERIF_CHILD_OPT", "0") or 0) if sys.flags.optimize else 0


def opt_suffix() -> str:
    return ":python-O" if child_opt_level() else ""


def in_child_interpreter(module: str, func: str, args, optimize: int = 1, timeout_s: float = 3600.0):
    """module.func(*args) in a NEW interpreter started with -O (optimize=1) or -OO (2): `assert` statements and
    `if __debug__:` blocks of the code under test are compiled away there, as for any user who runs with PYTHONOPTIMIZE.
    The result comes back pickled in a scratch file that is removed at once (stdout stays free for what the code under test prints)."""
    import pickle
    import subprocess
    import tempfile
    env = dict(os.environ)
    env["PYTHONPATH"] = VERIF_DIR
    env["VERIF_CHILD_OPT"] = str(optimize)
    env.pop("PYTHONOPTIMIZE", None)
    env["PYTHONPYCACHEPREFIX"] = "/var/tmp/verif-pyc-%d" % os.getuid()     # no .opt-N.pyc files in /repo or /verif
    fd, path = tempfile.mkstemp(prefix="verif-child-", dir="/var/tmp")
    os.close(fd)
    try:                                   # scratch files of workers that were killed (wall cap, early stop) are swept here
        now = time.time()
        for n in os.listdir("/var/tmp"):
            if n.startswith("verif-child-") and now - os.stat(os.path.join("/var/tmp", n)).st_mtime > 7200:
                os.unlink(os.path.join("/var/tmp", n))
    except OSError:
        pass
    try:
        cmd = [sys.executable, "-O" if optimize == 1 else "-OO", "-c", _CHILD_SRC, module, func, path]
        p = subprocess.Popen(cmd, stdin=subprocess.PIPE, stdout=subprocess.DEVNULL, stderr=subprocess.PIPE, env=env, cwd=VERIF_DIR)
        try:
            _, err = p.communicate(pickle.dumps(list(args), protocol=4), timeout=timeout_s)
        except subprocess.TimeoutExpired:
            p.kill()
            p.communicate()
            raise HarnessError(f"child interpreter ({module}.{func}) did not finish within {timeout_s:.0f}s")
        with open(path, "rb") as f:
            data = f.read()
    finally:
        try:
            os.unlink(path)
        except OSError:
            pass
    if p.returncode != 0 or not data:
        raise HarnessError(f"child interpreter ({module}.{func}) died (status {p.returncode}): {err.decode('utf-8', 'replace')[-600:]}")
    kind, out = pickle.loads(data)
    if kind != "ok":
        raise HarnessError(f"child interpreter ({module}.{func}): {out}")
    return out


# --------------------------------------------------------------------------
# delta debugging
# --------------------------------------------------------------------------

def ddmin(seq: list, fails, max_tests: int = 300) -> list:
    """Classic ddmin: smallest sub-list (1-minimal within budget) for which fails(sub) is True."""
    tests = [0]

    def t(s):
        tests[0] += 1
        return fails(s)

    n = 2
    seq = list(seq)
    while len(seq) >= 2 and tests[0] < max_tests:
        size = max(1, len(seq) // n)
        subsets = [seq[i:i + size] for i in range(0, len(seq), size)]
        reduced = False
        for i in range(len(subsets)):
            comp = [x for j, s in enumerate(subsets) if j != i for x in s]
            if tests[0] >= max_tests:
                break
            if comp and t(comp):
                seq = comp
                n = max(n - 1, 2)
                reduced = True
                break
        if not reduced:
            if n >= len(seq):
                break
            n = min(len(seq), n * 2)
    if len(seq) == 1 and tests[0] < max_tests:
        if t([]):
            return []
    return seq


# --------------------------------------------------------------------------
# check driver
# --------------------------------------------------------------------------

class Outcome:
    """Collected over a batch by a check; decides exit code and prints lines."""

    def __init__(self, prop: str):
        self.prop = prop
        self.findings = Findings(prop)
        self.violations = []   # (signature, replay path, message)
        self.sig_seen = set()

    def violation(self, signature: str, replay_path: str, message: str = ""):
        self.violations.append((signature, replay_path, message))

    def finish(self) -> int:
        self.findings.print_known()
        for sig, path, msg in self.violations:
            print(f"VIOLATION property={self.prop} replay={path} signature={sig} {msg}".rstrip())
        sys.stdout.flush()
        return 1 if self.violations else 0
