"""Generic batch driver for the history / fault engines (C09, C16, C17, C22, C32, C35, C37).

A check module provides
    PROP, LEVEL, TIERS = {"quick": {"runs": n, "wall": s, "chunk": k}, ...}
    worker(seed) -> dict(problems=[(signature, message)], digest=str, probes={name: n}, faults={kind: n},
                         units=int (operations / steps simulated), nontrivial=bool, sample=obj|None,
                         case=obj (only needed when problems is non-empty), extra={...})
    minimise(case, signature) -> (case', info)         shrink while the same signature persists
    write_replay(case, signature, message, info) -> path   (must re-run the case strictly and confirm)
    evidence_extra(agg) -> dict merged into coverage
    ASSUMPTIONS, COMPONENTS, RULE, TIME_UNIT
"""
from __future__ import annotations

import os
import time

from . import core


def explore(mod, tier: str) -> int:
    t0 = time.monotonic()
    core.use_repo()
    base = core.base_seed()
    budget = mod.TIERS[tier]
    n = int(os.environ.get("VERIF_RUNS", budget["runs"]))
    seeds = [core.derive_seed(mod.PROP, base, i) for i in range(n)]
    outcome = core.Outcome(mod.PROP)
    agg = {"runs": 0, "units": 0, "faults": {}, "probes": {}, "digests": set(), "nontrivial": set(),
           "samples": [], "extra": {}, "skipped": {}}
    unknown = {}

    def on_result(seed, out):
        agg["runs"] += 1
        agg["units"] += out.get("units", 0)
        for k, v in out.get("faults", {}).items():
            agg["faults"][k] = agg["faults"].get(k, 0) + v
        for k, v in out.get("probes", {}).items():
            agg["probes"][k] = agg["probes"].get(k, 0) + v
        for k, v in out.get("skipped", {}).items():
            agg["skipped"][k] = agg["skipped"].get(k, 0) + v
        for k, v in out.get("extra", {}).items():
            if isinstance(v, (int, float)):
                agg["extra"][k] = agg["extra"].get(k, 0) + v
            elif isinstance(v, (list, set, tuple)):
                agg["extra"].setdefault(k, set()).update(v)
        agg["digests"].add(out["digest"])
        if out.get("nontrivial"):
            agg["nontrivial"].add(out["digest"])
        # engines that run many cases per worker call report per-case digests
        agg["digests"].update(out.get("case_digests", ()))
        agg["nontrivial"].update(out.get("nontrivial_digests", ()))
        agg["cases"] = agg.get("cases", 0) + out.get("cases", 1)
        if out.get("sample") is not None and len(agg["samples"]) < 4:
            agg["samples"].append(out["sample"])
        agg.setdefault("unconfirmed", set()).update(out.get("unconfirmed", ()))
        for sig, msg in out["problems"]:
            if outcome.findings.is_known(sig):
                continue
            # keep a few candidate cases per signature: a case seen in a worker that ran other cases before may depend
            # on what those left behind in the process and then does not reproduce from a clean state
            if len(unknown.setdefault(sig, [])) < 4:
                unknown[sig].append((out["case"], msg))

    core.run_batch(mod.worker, seeds, wall_cap_s=budget["wall"], chunk=budget.get("chunk", 4),
                   on_result=on_result, start=getattr(mod, "START", "fork"),
                   jobs=min(core.n_jobs(), budget.get("jobs", 64)),
                   stop_when=lambda out: any(not outcome.findings.is_known(sig) for sig, _ in out["problems"]))

    unreproducible = []
    max_min = getattr(mod, "MAX_MINIMISED", 5)       # a change that breaks everything yields hundreds of signatures:
    max_rep = getattr(mod, "MAX_REPORTED", 12)       # a few are minimised, a few more confirmed, the rest only counted
    done = 0
    not_replayed = 0
    for sig in sorted(unknown):
        if done >= max_rep and outcome.violations:
            not_replayed += 1
            continue
        path = None
        for case, msg in unknown[sig]:
            # first: does this case violate at all when executed from a clean process state?
            path = mod.write_replay(case, sig, msg, {"note": "not minimised"})
            if path is None:
                continue
            if done < max_min:
                case2, info = mod.minimise(case, sig)
                path2 = mod.write_replay(case2, sig, msg, info)
                path = path2 or path
            done += 1
            break
        if path is None:
            unreproducible.append(sig)
            continue
        outcome.violation(sig, path, msg)
    unreproducible += sorted(agg.get("unconfirmed", ()))
    if not_replayed:
        print(f"{mod.PROP}: {not_replayed} further violation signature(s) were observed and not replayed (limit {max_rep} per run)")
    if unreproducible:
        import sys
        print(f"{mod.PROP}: {len(unreproducible)} violation signature(s) were seen in worker processes but none of their "
              f"candidate cases reproduced from a clean process state: {unreproducible[:6]}", file=sys.stderr)
        if not outcome.violations:
            raise core.HarnessError("violations were observed that do not replay from a clean process state: "
                                    + ", ".join(unreproducible[:6]))

    wall = time.monotonic() - t0
    cov = {
        "evaluations": agg.get("cases", agg["runs"]),
        "distinct_nontrivial": len(agg["nontrivial"]),
        "rule": mod.RULE,
        "samples": agg["samples"],
        "exhaustive": False,
        "runs_per_hour": int(agg.get("cases", agg["runs"]) / wall * 3600) if wall > 0 else 0,
        "seeds_per_hour": int(agg["runs"] / wall * 3600) if wall > 0 else 0,
        "simulated_time": {"unit": mod.TIME_UNIT, "total": agg["units"]},
        "faults_fired": agg["faults"],
        "distinct_event_logs": len(agg["digests"]),
        "reach_probes": agg["probes"],
        "components": mod.COMPONENTS,
        "known_findings_matched": dict(outcome.findings.matched),
        "skipped": agg["skipped"],
    }
    cov["interleavings"] = {"measure": getattr(mod, "INTERLEAVING_MEASURE",
                                               "distinct event-log digests: each is one complete history / schedule / fault sequence "
                                               "as executed (operations, arguments, observed results)"),
                            "distinct": len(agg["digests"]), "possible": None}
    extra = mod.evidence_extra(agg) if hasattr(mod, "evidence_extra") else {}
    cov.update(extra)
    core.write_evidence(mod.PROP, tier, base, mod.LEVEL, cov, wall, len(outcome.violations), mod.ASSUMPTIONS)
    print(f"{mod.PROP} {tier}: runs={agg['runs']} units={agg['units']} distinct_nontrivial={len(agg['nontrivial'])} "
          f"faults={agg['faults']} probes={agg['probes']} wall={wall:.1f}s")
    return outcome.finish()


def replay_common(mod, path: str, rerun) -> int:
    """rerun(replay_dict) -> (set of signatures, digest, messages)"""
    rp = core.load_replay(path)
    core.use_repo()
    sigs, digest, msgs = rerun(rp)
    want = rp["violation"]["signature"]
    same = digest == rp.get("digest")
    print(f"REPLAY property={mod.PROP} expected={want} got={sorted(sigs)} digest_match={same}")
    for m in msgs[:10]:
        print("  " + m)
    if want in sigs and same:
        print(f"VIOLATION property={mod.PROP} replay={path} signature={want}")
        return 1
    if want in sigs:
        import sys
        print("REPLAY-DIVERGED: same violation, different event log", file=sys.stderr)
        return 2
    return 0
