"""fssim -- an in-memory file system behind the names `os`, `open`, `shutil`, `input` of the export code (DESIGN.md 4.8).

Every mutating call is an event; ENOSPC / EACCES / EEXIST faults are injected at chosen mutating calls.  Path
resolution is component-wise like a POSIX kernel's (an intermediate component must exist and be a directory, `..`
steps to the parent of the directory reached so far), so that an escape reported here is one the real file system
would perform too.  No symlinks.
"""
from __future__ import annotations

import errno
import io
import os as _os
import posixpath
import types


class SimFS:
    def __init__(self, cwd="/sim/cwd"):
        self.root = {}                  # name -> dict (dir) | bytearray/str holder (file)
        self.cwd = cwd
        self.events = []                # (kind, absolute path)
        self.fault_plan = {}            # mutating-call index -> "ENOSPC" | "EACCES" | "EEXIST"
        self.calls = 0
        self.fired = []
        self._mk(self._split(cwd))

    # ---- helpers -------------------------------------------------------------------
    @staticmethod
    def _split(abspath):
        return [c for c in abspath.split("/") if c]

    def _mk(self, comps):
        d = self.root
        for c in comps:
            d = d.setdefault(c, {})
        return d

    def _walk(self, path, parent=False):
        """Resolve like the kernel.  -> (list of canonical components, node or None).
        With parent=True resolve all but the last component and return (components of parent, parent node, last name)."""
        if path == "":
            raise FileNotFoundError(errno.ENOENT, "No such file or directory", path)
        if isinstance(path, bytes):
            path = path.decode("utf-8", "surrogateescape")
        if "\x00" in path:
            raise ValueError("embedded null byte")
        comps = [] if path.startswith("/") else self._split(self.cwd)
        node = self._node(comps)
        parts = path.split("/")
        trailing_slash = len(parts) > 1 and parts[-1] == ""
        parts = [p for p in parts if p != ""]
        last = None
        if parent:
            if not parts:
                return comps, node, None
            last = parts.pop()
        for p in parts:
            if not isinstance(node, dict):
                raise NotADirectoryError(errno.ENOTDIR, "Not a directory", path)
            if p == ".":
                continue
            if p == "..":
                if comps:
                    comps = comps[:-1]
                node = self._node(comps)
                continue
            if len(p.encode("utf-8", "surrogateescape")) > 255:
                raise OSError(errno.ENAMETOOLONG, "File name too long", path)
            if p not in node:
                raise FileNotFoundError(errno.ENOENT, "No such file or directory", path)
            node = node[p]
            comps = comps + [p]
        if parent:
            if not isinstance(node, dict):
                raise NotADirectoryError(errno.ENOTDIR, "Not a directory", path)
            if len(last.encode("utf-8", "surrogateescape")) > 255:
                raise OSError(errno.ENAMETOOLONG, "File name too long", path)
            return comps, node, last
        return comps, node

    def _node(self, comps):
        d = self.root
        for c in comps:
            d = d[c]
        return d

    def _mutating(self, op, path):
        self.calls += 1
        kind = self.fault_plan.get(self.calls)
        if kind:
            self.fired.append((self.calls, kind, op))
            code = getattr(errno, kind)
            exc = {"EEXIST": FileExistsError, "EACCES": PermissionError}.get(kind, OSError)
            raise exc(code, _os.strerror(code), path)

    @staticmethod
    def _abs(comps):
        return "/" + "/".join(comps)

    # ---- os functions ----------------------------------------------------------------
    def exists(self, path):
        try:
            self._walk(path)
            return True
        except (OSError, ValueError):
            return False

    def isdir(self, path):
        try:
            return isinstance(self._walk(path)[1], dict)
        except (OSError, ValueError):
            return False

    def isfile(self, path):
        try:
            return not isinstance(self._walk(path)[1], dict)
        except (OSError, ValueError):
            return False

    def mkdir(self, path, mode=0o777):
        comps, parent, last = self._walk(path, parent=True)
        if last in (None, ".", ".."):
            raise FileExistsError(errno.EEXIST, "File exists", path)
        if last in parent:
            raise FileExistsError(errno.EEXIST, "File exists", path)
        self._mutating("mkdir", path)
        parent[last] = {}
        self.events.append(("mkdir", self._abs(comps + [last])))

    def makedirs(self, name, mode=0o777, exist_ok=False):
        # the algorithm of os.makedirs, on this file system
        head, tail = posixpath.split(name)
        if not tail:
            head, tail = posixpath.split(head)
        if head and tail and not self.exists(head):
            try:
                self.makedirs(head, exist_ok=exist_ok)
            except FileExistsError:
                pass
            if tail == ".":
                return
        try:
            self.mkdir(name, mode)
        except OSError:
            if not exist_ok or not self.isdir(name):
                raise

    def remove(self, path):
        comps, parent, last = self._walk(path, parent=True)
        if last not in parent:
            raise FileNotFoundError(errno.ENOENT, "No such file or directory", path)
        if isinstance(parent[last], dict):
            raise IsADirectoryError(errno.EISDIR, "Is a directory", path)
        del parent[last]
        self.events.append(("remove", self._abs(comps + [last])))

    def rmdir(self, path):
        comps, parent, last = self._walk(path, parent=True)
        if last is None or last not in parent:
            raise FileNotFoundError(errno.ENOENT, "No such file or directory", path)
        if not isinstance(parent[last], dict):
            raise NotADirectoryError(errno.ENOTDIR, "Not a directory", path)
        if parent[last]:
            raise OSError(errno.ENOTEMPTY, "Directory not empty", path)
        del parent[last]
        self.events.append(("rmdir", self._abs(comps + [last])))

    def listdir(self, path="."):
        comps, node = self._walk(path)
        if not isinstance(node, dict):
            raise NotADirectoryError(errno.ENOTDIR, "Not a directory", path)
        return sorted(node)

    def walk(self, top, topdown=True, onerror=None, followlinks=False):
        try:
            comps, node = self._walk(top)
        except OSError:
            return
        if not isinstance(node, dict):
            return
        dirs = sorted(k for k, v in node.items() if isinstance(v, dict))
        files = sorted(k for k, v in node.items() if not isinstance(v, dict))
        if topdown:
            yield top, dirs, files
        for d in dirs:
            yield from self.walk(posixpath.join(top, d), topdown)
        if not topdown:
            yield top, dirs, files

    def open(self, path, mode="r", *a, **k):
        if isinstance(path, int):
            raise OSError(errno.EBADF, "file descriptors are not simulated")
        comps, parent, last = self._walk(path, parent=True)
        if last in (None, ".", ".."):
            raise IsADirectoryError(errno.EISDIR, "Is a directory", path)
        writing = any(c in mode for c in "wax+")
        if not writing:
            if last not in parent:
                raise FileNotFoundError(errno.ENOENT, "No such file or directory", path)
            if isinstance(parent[last], dict):
                raise IsADirectoryError(errno.EISDIR, "Is a directory", path)
            data = parent[last].data
            return io.BytesIO(data) if "b" in mode else io.StringIO(data.decode("utf-8", "replace"))
        if last in parent and isinstance(parent[last], dict):
            raise IsADirectoryError(errno.EISDIR, "Is a directory", path)
        if "x" in mode and last in parent:
            raise FileExistsError(errno.EEXIST, "File exists", path)
        self._mutating("open", path)
        existed = last in parent
        f = parent.get(last)
        if f is None or "w" in mode:
            f = SimFile()
            parent[last] = f
        self.events.append(("truncate" if existed else "create", self._abs(comps + [last])))
        return SimWriter(self, f, "b" in mode, path)

    def rename(self, src, dst):
        scomps, sparent, slast = self._walk(src, parent=True)
        if slast is None or slast not in sparent:
            raise FileNotFoundError(errno.ENOENT, "No such file or directory", src)
        node = sparent[slast]
        if self.isdir(dst) and not isinstance(node, dict):
            raise IsADirectoryError(errno.EISDIR, "Is a directory", dst)
        dcomps, dparent, dlast = self._walk(dst, parent=True)
        if dlast in (None, ".", ".."):
            raise OSError(errno.EINVAL, "Invalid argument", dst)
        self._mutating("rename", dst)
        del sparent[slast]
        existed = dlast in dparent
        dparent[dlast] = node
        self.events.append(("remove", self._abs(scomps + [slast])))
        self.events.append(("mkdir" if isinstance(node, dict) else ("truncate" if existed else "create"), self._abs(dcomps + [dlast])))

    def move(self, src, dst):
        """shutil.move: into the directory if dst is an existing directory"""
        if self.isdir(dst):
            dst = posixpath.join(dst, posixpath.basename(src.rstrip("/")))
        self.rename(src, dst)
        return dst

    def copyfile(self, src, dst):
        comps, node = self._walk(src)
        if isinstance(node, dict):
            raise IsADirectoryError(errno.EISDIR, "Is a directory", src)
        if self.isdir(dst):
            dst = posixpath.join(dst, posixpath.basename(src))
        with self.open(dst, "wb") as f:
            f.write(node.data)
        return dst

    def rmtree(self, path, ignore_errors=False, onerror=None):
        try:
            for root, dirs, files in list(self.walk(path, topdown=False)):
                for f in files:
                    self.remove(posixpath.join(root, f))
                for d in dirs:
                    self.rmdir(posixpath.join(root, d))
            self.rmdir(path)
        except OSError:
            if not ignore_errors:
                raise

    # ---- temp files (tempfile.* is redirected here while the command runs) ---------------
    tmpdir = "/sim/tmp"
    _tmp_counter = 0
    _fds = None

    def mkstemp(self, suffix=None, prefix=None, dir=None, text=False):
        self._tmp_counter += 1
        d = dir or self.tmpdir
        if not self.exists(d):
            self._mk(self._split(posixpath.normpath(posixpath.join(self.cwd, d))))
        path = posixpath.join(d, "%s%06d%s" % (prefix or "tmp", self._tmp_counter, suffix or ""))
        w = self.open(path, "w" if text else "wb")
        if self._fds is None:
            self._fds = {}
        fd = 1000 + self._tmp_counter
        self._fds[fd] = w
        return fd, path

    def mkdtemp(self, suffix=None, prefix=None, dir=None):
        self._tmp_counter += 1
        d = dir or self.tmpdir
        if not self.exists(d):
            self._mk(self._split(posixpath.normpath(posixpath.join(self.cwd, d))))
        path = posixpath.join(d, "%s%06d%s" % (prefix or "tmp", self._tmp_counter, suffix or ""))
        self.mkdir(path)
        return path

    def fdopen(self, fd, mode="r", *a, **k):
        if self._fds and fd in self._fds:
            w = self._fds[fd]
            w.binary = "b" in mode
            return w
        raise OSError(errno.EBADF, "Bad file descriptor")

    def fd_write(self, fd, data):
        if self._fds and fd in self._fds:
            w = self._fds[fd]
            w.binary = True
            return w.write(data)
        raise OSError(errno.EBADF, "Bad file descriptor")

    def fd_close(self, fd):
        if self._fds and fd in self._fds:
            self._fds.pop(fd).close()
            return
        raise OSError(errno.EBADF, "Bad file descriptor")

    def all_paths(self):
        out = []

        def rec(d, pre):
            for k in sorted(d):
                p = pre + "/" + k
                out.append((p, isinstance(d[k], dict)))
                if isinstance(d[k], dict):
                    rec(d[k], p)
        rec(self.root, "")
        return out


class SimFile:
    __slots__ = ("data",)

    def __init__(self):
        self.data = b""


class SimWriter:
    def __init__(self, fs, f, binary, path):
        self.fs, self.f, self.binary, self.path = fs, f, binary, path
        self.closed = False

    def write(self, s):
        self.fs._mutating("write", self.path)
        if not self.binary:
            s = s.encode("utf-8", "surrogatepass")
        self.f.data += bytes(s)
        return len(s)

    def flush(self):
        pass

    def close(self):
        self.closed = True

    def __enter__(self):
        return self

    def __exit__(self, *a):
        self.close()
        return False


class _SimPath(types.ModuleType):
    def __init__(self, fs):
        super().__init__("posixpath")
        self._fs = fs

    def __getattr__(self, name):
        return getattr(posixpath, name)

    def exists(self, p):
        return self._fs.exists(p)

    def isdir(self, p):
        return self._fs.isdir(p)

    def isfile(self, p):
        return self._fs.isfile(p)

    def lexists(self, p):
        return self._fs.exists(p)

    def abspath(self, p):
        if not posixpath.isabs(p):
            p = posixpath.join(self._fs.cwd, p)
        return posixpath.normpath(p)

    def realpath(self, p, **k):
        return self.abspath(p)


class SimOS(types.ModuleType):
    """Stands in for the module `os` inside the code under test."""

    def __init__(self, fs):
        super().__init__("os")
        self._fs = fs
        self.path = _SimPath(fs)
        self.name = "posix"
        self.sep = "/"
        self.mkdir = fs.mkdir
        self.makedirs = fs.makedirs
        self.remove = fs.remove
        self.unlink = fs.remove
        self.rmdir = fs.rmdir
        self.listdir = fs.listdir
        self.walk = fs.walk
        self.rename = fs.rename
        self.replace = fs.rename
        self.fdopen = fs.fdopen
        self.close = fs.fd_close
        self.write = fs.fd_write

    def getcwd(self):
        return self._fs.cwd

    def __getattr__(self, name):
        if name in ("symlink", "link", "chdir", "open", "removedirs", "renames", "scandir", "stat",
                    "lstat", "chmod", "truncate", "mkfifo", "utime"):
            raise AttributeError(f"os.{name} is not simulated (the export code under test does not use it)")
        return getattr(_os, name)


class SimNamedTemp:
    """tempfile.NamedTemporaryFile / TemporaryDirectory stand-ins"""

    def __init__(self, fs, mode="w+b", suffix=None, prefix=None, dir=None, delete=True, **k):
        fd, self.name = fs.mkstemp(suffix, prefix, dir)
        self._w = fs.fdopen(fd, mode)
        self._fs, self._delete = fs, delete

    def write(self, s):
        return self._w.write(s)

    def flush(self):
        pass

    def close(self):
        self._w.close()
        if self._delete and self._fs.exists(self.name):
            self._fs.remove(self.name)

    def __enter__(self):
        return self

    def __exit__(self, *a):
        self.close()
        return False


class SimTempDir:
    def __init__(self, fs, suffix=None, prefix=None, dir=None, **k):
        self._fs = fs
        self.name = fs.mkdtemp(suffix, prefix, dir)

    def cleanup(self):
        self._fs.rmtree(self.name, ignore_errors=True)

    def __enter__(self):
        return self.name

    def __exit__(self, *a):
        self.cleanup()
        return False


def patch_tempfile_and_shutil(fs):
    """Redirect the process-wide tempfile.* and the mutating shutil.* functions to fs; returns an undo function."""
    import shutil
    import tempfile
    saved = []

    def setp(mod, name, val):
        saved.append((mod, name, getattr(mod, name)))
        setattr(mod, name, val)
    setp(tempfile, "mkstemp", fs.mkstemp)
    setp(tempfile, "mkdtemp", fs.mkdtemp)
    setp(tempfile, "gettempdir", lambda: fs.tmpdir)
    setp(tempfile, "NamedTemporaryFile", lambda *a, **k: SimNamedTemp(fs, *a, **k))
    setp(tempfile, "TemporaryDirectory", lambda *a, **k: SimTempDir(fs, *a, **k))
    setp(shutil, "move", fs.move)
    setp(shutil, "copy", fs.copyfile)
    setp(shutil, "copy2", fs.copyfile)
    setp(shutil, "copyfile", fs.copyfile)
    setp(shutil, "rmtree", fs.rmtree)

    def undo():
        for mod, name, val in reversed(saved):
            setattr(mod, name, val)
    return undo
