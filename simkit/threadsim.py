"""threadsim -- deterministic scheduling of threads started by the code under test.

androguard is single-threaded today, but "process the DEX files in parallel" is an obvious change (the code carries
TODOs for it).  While a simulation is active, `threading.Thread`, `threading.Lock/RLock` and
`concurrent.futures.ThreadPoolExecutor` are replaced by cooperative versions: the threads are real, but exactly one of
them runs at any instant (baton passing), pre-emption happens only at line events inside androguard code, and which
thread continues is drawn from a seeded PRNG.  One seed is one exactly repeatable interleaving.

Not covered (a real-time watchdog turns a resulting dead-lock into a harness error, never a verdict): Condition, Event,
Semaphore, queue.Queue, multiprocessing.
"""
from __future__ import annotations

import concurrent.futures as _cf
import os
import random
import sys
import threading as _threading

from .core import HarnessError

_REAL_THREAD = _threading.Thread
_REAL_LOCK = _threading.Lock
_REAL_RLOCK = _threading.RLock
_REAL_TPE = _cf.ThreadPoolExecutor
_allocate = _threading._allocate_lock
WATCHDOG_S = 120.0

_ACTIVE = [None]          # the running Simulation, if any


class _Actor:
    __slots__ = ("name", "go", "state", "waiting", "ident", "index")


    def __init__(self, name, index):
        self.name = name
        self.index = index
        self.go = _allocate()        # used as a binary semaphore (raw lock: never a simulated primitive)
        self.go.acquire()
        self.state = "ready"      # ready | blocked | done
        self.waiting = None       # callable -> True when the actor may continue


class Simulation:
    def __init__(self, seed, preempt=0.02, trace_prefix=None, extra_modules_prefix=None):
        self.extra_modules_prefix = extra_modules_prefix
        self.rng = random.Random(seed)
        self.preempt = preempt
        self.mutex = _allocate()
        self.actors = []
        self.current = None
        self.by_ident = {}
        self.threads_started = 0
        self.switches = 0
        self.points = 0
        self.trace_prefix = trace_prefix
        self.tracing = False
        self.schedule = []            # indices of the actors chosen at every switch (event log)
        self.failed = None
        self._patched = []

    # ---- set-up / tear-down -------------------------------------------------------------------
    def __enter__(self):
        if _ACTIVE[0] is not None:
            raise HarnessError("nested thread simulations")
        _ACTIVE[0] = self
        main = _Actor("main", 0)
        self.actors.append(main)
        self.current = main
        self.by_ident[_threading.get_ident()] = main
        # Only the names as seen from the modules of the code under test are rebound (never the threading module itself:
        # its own Event / Condition / Semaphore classes look `Lock` up in their module at construction time).
        import concurrent as _concurrent
        for name, mod in list(sys.modules.items()):
            if mod is None or not (name == "androguard" or name.startswith("androguard.")
                                   or name.startswith(self.extra_modules_prefix or "\0")):
                continue
            for attr, val in list(vars(mod).items()):
                if val is _REAL_TPE:
                    self._patch(mod, attr, SimExecutor)
                elif val is _REAL_THREAD:
                    self._patch(mod, attr, SimThread)
                elif val is _REAL_LOCK:
                    self._patch(mod, attr, SimLock)
                elif val is _REAL_RLOCK:
                    self._patch(mod, attr, SimRLock)
                elif val is _threading:
                    self._patch(mod, attr, _THREADING_PROXY)
                elif val is _cf:
                    self._patch(mod, attr, _CF_PROXY)
                elif val is _concurrent:
                    self._patch(mod, attr, _CONCURRENT_PROXY)
        return self

    def _patch(self, obj, name, val):
        self._patched.append((obj, name, getattr(obj, name)))
        setattr(obj, name, val)

    def __exit__(self, et, ev, tb):
        try:
            # let every thread that is still alive run to its end (deterministically), so that nothing outlives the run
            if et is None:
                me = self._me()
                while any(a.state != "done" for a in self.actors if a is not me):
                    self._block(lambda: all(a.state == "done" for a in self.actors if a is not me))
        finally:
            if self.tracing:
                sys.settrace(None)
                _threading.settrace(None)
            for obj, name, val in reversed(self._patched):
                setattr(obj, name, val)
            _ACTIVE[0] = None
        return False

    # ---- scheduling ---------------------------------------------------------------------------
    def _me(self):
        a = self.by_ident.get(_threading.get_ident())
        if a is None:
            raise HarnessError("a thread that is not under the simulator touched a simulated primitive")
        return a

    def _runnable(self):
        out = []
        for a in self.actors:
            if a.state == "ready":
                out.append(a)
            elif a.state == "blocked" and a.waiting():
                out.append(a)
        return out

    def _handover(self, me, nxt):
        """give the baton to nxt and park until it comes back (me may be done: then do not park)"""
        self.switches += 1
        self.schedule.append(nxt.index)
        self.current = nxt
        nxt.state = "ready"
        nxt.waiting = None
        nxt.go.release()
        if me.state != "done":
            if not me.go.acquire(timeout=WATCHDOG_S):
                self.failed = "watchdog"
                raise HarnessError("threadsim: a parked thread was not rescheduled within the real-time watchdog")

    def yield_point(self):
        """pre-emption point of the running thread"""
        me = self.by_ident.get(_threading.get_ident())
        if me is None or me is not self.current:
            return
        self.points += 1
        if self.rng.random() >= self.preempt:
            return
        rs = self._runnable()
        if len(rs) <= 1:
            return
        nxt = self.rng.choice(rs)
        if nxt is me:
            return
        self._handover(me, nxt)

    def _block(self, cond):
        """the running thread cannot continue until cond() holds"""
        me = self._me()
        while not cond():
            me.state = "blocked"
            me.waiting = cond
            rs = [a for a in self._runnable() if a is not me]
            if not rs:
                me.state = "ready"
                raise HarnessError("threadsim: dead-lock (no runnable thread) -- the code under test blocks on a primitive "
                                   "that is not simulated, or dead-locks itself")
            nxt = self.rng.choice(rs)
            self._handover(me, nxt)
        me.state = "ready"
        me.waiting = None

    def _finish(self):
        """the running thread ends"""
        me = self._me()
        me.state = "done"
        rs = self._runnable()
        if rs:
            nxt = self.rng.choice(rs)
            self._handover(me, nxt)

    def _start_tracing(self):
        if self.tracing:
            return
        self.tracing = True
        _threading.settrace(self._tracer)
        sys.settrace(self._tracer)

    def _tracer(self, frame, event, arg):
        if event != "call":
            return None
        fn = frame.f_code.co_filename
        if self.trace_prefix and fn.startswith(self.trace_prefix):
            return self._local
        return None

    def _local(self, frame, event, arg):
        if event == "line" and _ACTIVE[0] is self:
            self.yield_point()
        return self._local


class SimThread(_REAL_THREAD):
    def start(self):
        sim = _ACTIVE[0]
        if sim is None:
            return super().start()
        actor = _Actor(self.name, len(sim.actors))
        self._verif_actor = actor
        sim.actors.append(actor)
        sim.threads_started += 1
        sim._start_tracing()
        super().start()

    def run(self):
        sim = _ACTIVE[0]
        actor = getattr(self, "_verif_actor", None)
        if sim is None or actor is None:
            return super().run()
        sim.by_ident[_threading.get_ident()] = actor
        if not actor.go.acquire(timeout=WATCHDOG_S):
            return
        sys.settrace(sim._tracer)
        try:
            super().run()
        finally:
            sys.settrace(None)
            try:
                sim._finish()
            except HarnessError:
                pass

    def join(self, timeout=None):
        sim = _ACTIVE[0]
        actor = getattr(self, "_verif_actor", None)
        if sim is None or actor is None:
            return super().join(timeout)
        sim._block(lambda: actor.state == "done")
        super().join(timeout if timeout is not None else WATCHDOG_S)


class SimLock:
    def __init__(self):
        self._real = _allocate()
        self._owner = None

    def acquire(self, blocking=True, timeout=-1):
        sim = _ACTIVE[0]
        if sim is None or _threading.get_ident() not in sim.by_ident:
            return self._real.acquire(blocking, timeout)
        if self._real.acquire(False):
            self._owner = _threading.get_ident()
            sim.yield_point()
            return True
        if not blocking:
            return False
        sim._block(lambda: not self._real.locked())
        ok = self._real.acquire(False)
        if not ok:
            raise HarnessError("threadsim: lock was taken between wake-up and acquire")
        self._owner = _threading.get_ident()
        return True

    def release(self):
        self._owner = None
        self._real.release()
        sim = _ACTIVE[0]
        if sim is not None and _threading.get_ident() in sim.by_ident:
            sim.yield_point()

    def _is_owned(self):
        return self._real.locked()

    def locked(self):
        return self._real.locked()

    __enter__ = acquire

    def __exit__(self, *a):
        self.release()


class SimRLock(SimLock):
    def __init__(self):
        super().__init__()
        self._count = 0

    def acquire(self, blocking=True, timeout=-1):
        if self._owner == _threading.get_ident() and self._count:
            self._count += 1
            return True
        ok = super().acquire(blocking, timeout)
        if ok:
            self._count = 1
        return ok

    def release(self):
        if self._owner != _threading.get_ident():
            raise RuntimeError("cannot release un-acquired lock")
        self._count -= 1
        if self._count == 0:
            super().release()

    __enter__ = acquire


class SimFuture:
    def __init__(self):
        self._done = False
        self._result = None
        self._exc = None

    def done(self):
        return self._done

    def result(self, timeout=None):
        sim = _ACTIVE[0]
        if not self._done:
            if sim is None:
                raise HarnessError("simulated future awaited outside a simulation")
            sim._block(lambda: self._done)
        if self._exc is not None:
            raise self._exc
        return self._result

    def exception(self, timeout=None):
        self.result() if not self._done else None
        return self._exc


class SimExecutor:
    """ThreadPoolExecutor stand-in: one simulated thread per task, at most max_workers alive at a time."""

    def __init__(self, max_workers=None, thread_name_prefix="", initializer=None, initargs=()):
        self._max = max_workers or min(32, (os.cpu_count() or 1) + 4)
        self._threads = []
        self._initializer = initializer
        self._initargs = initargs
        self._n = 0

    def submit(self, fn, /, *args, **kwargs):
        sim = _ACTIVE[0]
        fut = SimFuture()
        if sim is None:
            try:
                fut._result = fn(*args, **kwargs)
            except BaseException as e:  # noqa
                fut._exc = e
            fut._done = True
            return fut

        def task():
            try:
                if self._initializer:
                    self._initializer(*self._initargs)
                fut._result = fn(*args, **kwargs)
            except BaseException as e:  # noqa
                fut._exc = e
            fut._done = True

        alive = [t for t in self._threads if t._verif_actor.state != "done"]
        if len(alive) >= self._max:
            sim._block(lambda: sum(1 for t in self._threads if t._verif_actor.state != "done") < self._max)
        self._n += 1
        t = SimThread(target=task, name="sim-worker-%d" % self._n, daemon=True)
        self._threads.append(t)
        t.start()
        return fut

    def map(self, fn, *iterables, timeout=None, chunksize=1):
        futs = [self.submit(fn, *args) for args in zip(*iterables)]

        def gen():
            for f in futs:
                yield f.result()
        return gen()

    def shutdown(self, wait=True, cancel_futures=False):
        if wait:
            for t in self._threads:
                t.join()

    def __enter__(self):
        return self

    def __exit__(self, *a):
        self.shutdown(wait=True)
        return False


class _Proxy:
    """a module look-alike whose listed names are simulated and whose other names come from the real module"""

    def __init__(self, real, **over):
        self.__dict__["_real"] = real
        self.__dict__.update(over)

    def __getattr__(self, name):
        return getattr(self._real, name)


_THREADING_PROXY = _Proxy(_threading, Thread=SimThread, Lock=SimLock, RLock=SimRLock)
_CF_PROXY = _Proxy(_cf, ThreadPoolExecutor=SimExecutor)
import concurrent as _concurrent_pkg  # noqa: E402
_CONCURRENT_PROXY = _Proxy(_concurrent_pkg, futures=_CF_PROXY)
