"""procsim -- real OS processes stepped one DB-API call at a time (DESIGN.md 4.1, Appendix A).

Each simulated process is a real forked process running real androguard /
dataset / SQLAlchemy / sqlite3 code against one SQLite file.  The DB-API entry
point `sqlite3.dbapi2.connect` is replaced by a factory returning
Connection/Cursor subclasses whose execute/commit/rollback/close are
*scheduling points*: the child reports the point on a pipe and blocks until the
single-threaded parent hands it a token.  Exactly one child runs at any
instant; who runs, who crashes, who stalls is decided by the parent from the
seed (or from a recorded decision list when replaying).

SQLite's busy handler is re-implemented on a virtual clock: connections are
opened with timeout=0, a statement that fails with "database is locked" puts
the process to sleep for SQLite's own back-off delays on the simulator's clock
and is retried when woken, until 5000 virtual ms have accumulated.
"""
from __future__ import annotations

import os
import pickle
import re
import select
import signal
import sqlite3
import sqlite3.dbapi2 as dbapi2
import struct
import weakref

from .core import EventLog, HarnessError

BUSY_DELAYS = [1, 2, 5, 10, 15, 20, 25, 25, 25, 50, 50, 100]
BUSY_TIMEOUT_MS = 5000          # the shipped default (sqlite3.connect timeout=5.0)
REAL_WATCHDOG_S = 100.0         # real-time guard on one child step (SQLAlchemy's own pool time-out is 30 s real): harness error, never a verdict

# --------------------------------------------------------------------------
# pipe protocol
# --------------------------------------------------------------------------


def _send(fd, obj):
    b = pickle.dumps(obj, protocol=4)
    os.write(fd, struct.pack("<I", len(b)) + b)


def _recv(fd, timeout=None):
    if timeout is not None:
        r, _, _ = select.select([fd], [], [], timeout)
        if not r:
            raise HarnessError("child did not reach a scheduling point within the real-time watchdog")
    h = b""
    while len(h) < 4:
        c = os.read(fd, 4 - len(h))
        if not c:
            return None
        h += c
    n = struct.unpack("<I", h)[0]
    b = b""
    while len(b) < n:
        c = os.read(fd, n - len(b))
        if not c:
            return None
        b += c
    return pickle.loads(b)


# --------------------------------------------------------------------------
# child side: the DB-API seam
# --------------------------------------------------------------------------

_CH = None          # (read fd, write fd) in a simulated child; None = pass-through
_LAST_KIND = [None]  # kind of the statement most recently attempted (for exception classification)
_BYPASS = [0]        # DB-API calls that did not pass a scheduling point (reach probe)
_PASS = [False]      # True while the child tears a run down (connections closed as at process exit)
_CONNS = []              # weak references to the connections this body opened (to read their in_transaction flag)


def _in_txn():
    """ground truth from the sqlite3 module: is any connection of this body inside a transaction right now?"""
    alive = False
    for r in list(_CONNS):
        c = r()
        if c is None:
            _CONNS.remove(r)
            continue
        try:
            if c.in_transaction:
                alive = True
        except Exception:
            pass
    return alive


_PREV_FAILED = [False]   # the statement executed last raised into the code under test (reported with the next point)
_VNOW = [0]          # the simulator's virtual clock (ms), delivered with every token
_CLOCK_INSTALLED = [False]
VIRTUAL_EPOCH = 1_700_000_000.0


def _install_clock():
    """Inside a body the wall clock is the simulator's discrete-event clock: code under test that derives anything from
    time.time() sees the same instant in every process until the virtual clock advances (busy waits, stalls)."""
    if _CLOCK_INSTALLED[0]:
        return
    import time as _time
    _time.time = lambda: VIRTUAL_EPOCH + _VNOW[0] / 1000.0
    _time.time_ns = lambda: int((VIRTUAL_EPOCH + _VNOW[0] / 1000.0) * 1e9)
    _time.sleep = _sim_sleep
    # exclusive file creation (lock files, markers) and its removal are visible to the other processes: scheduling points too
    _real_open, _real_remove = os.open, os.remove

    def sim_os_open(path, flags, *a, **kw):
        if flags & os.O_EXCL:
            return _point("fs-excl-create", "os.open(O_EXCL) " + os.path.basename(os.fspath(path) if not isinstance(path, int) else str(path)),
                          lambda: _real_open(path, flags, *a, **kw))
        return _real_open(path, flags, *a, **kw)
    os.open = sim_os_open
    _CLOCK_INSTALLED[0] = True


def _sim_sleep(seconds):
    """time.sleep() of the code under test (a retry / back-off loop): the process gives up the token and is runnable again
    once the simulator's clock has advanced by that much.  Nothing in the unchanged tree sleeps."""
    if _CH is None or _PASS[0]:
        return None
    ms = max(1, int(float(seconds) * 1000))
    _send(_CH[1], ("sleep", ms))
    tok = _recv(_CH[0])
    if tok is None:
        os._exit(9)
    _VNOW[0] = tok[2]
    return None

_WS = re.compile(r"\s+")


def normalise_sql(sql: str) -> str:
    return _WS.sub(" ", sql).strip()[:160]


def classify_sql(sql: str) -> str:
    s = normalise_sql(sql).lower()
    if s.startswith("pragma"):
        if "journal_mode" in s:
            return "pragma-wal"
        return "reflect"
    if "sqlite_master" in s or "sqlite_temp_master" in s:
        return "reflect"
    if s.startswith("select count(*)") or s.startswith("select count("):
        if re.search(r"from\s+\"?session\"?", s):
            return "count-session"
        return "count-other"
    if s.startswith("create table"):
        m = re.match(r"create table (?:if not exists )?\"?([a-z_]+)\"?", s)
        return "create-" + (m.group(1) if m else "x")
    if s.startswith("insert into"):
        m = re.match(r"insert into \"?([a-z_]+)\"?", s)
        return "insert-" + (m.group(1) if m else "x")
    if s.startswith("select"):
        return "select"
    if s.startswith("alter table"):
        return "alter"
    if s.startswith("create index") or s.startswith("create unique index"):
        return "create-index"
    if s.startswith("begin"):
        return "begin"
    if s.startswith("update"):
        return "update"
    return "other"


COARSE_KINDS = ("count-session", "create-session", "insert-session", "commit")


def is_write_kind(kind):
    return kind.startswith(("insert-", "create-")) or kind in ("alter", "update", "create-index")


class _Injected(sqlite3.OperationalError):
    pass


def _point(kind, sql, attempt):
    """Scheduling point.  Runs attempt() when given the token; implements the virtual busy handler."""
    if _CH is None or _PASS[0]:
        return attempt()
    _LAST_KIND[0] = kind
    waited = 0
    n = 0
    _send(_CH[1], ("yield", kind, sql, _PREV_FAILED[0], _in_txn()))
    _PREV_FAILED[0] = False
    while True:
        tok = _recv(_CH[0])
        if tok is None:
            os._exit(9)
        inject = tok[1]
        _VNOW[0] = tok[2]
        if inject:
            _PREV_FAILED[0] = True
            raise sqlite3.OperationalError(inject)
        try:
            return attempt()
        except sqlite3.Error as e:
            if not isinstance(e, sqlite3.OperationalError):
                _PREV_FAILED[0] = True      # e.g. IntegrityError: the statement failed, its transaction stays open
                raise
            msg = str(e)
            if "locked" not in msg and "busy" not in msg:
                _PREV_FAILED[0] = True
                raise
            delay = BUSY_DELAYS[n] if n < len(BUSY_DELAYS) else 100
            if waited + delay > BUSY_TIMEOUT_MS:
                delay = BUSY_TIMEOUT_MS - waited
            if delay <= 0:
                _PREV_FAILED[0] = "busy"      # timed out on the lock: the statement never executed
                raise
            waited += delay
            n += 1
            _send(_CH[1], ("busy", kind, sql, delay))


class SimCursor(sqlite3.Cursor):
    def execute(self, sql, *a):
        return _point(classify_sql(sql), normalise_sql(sql),
                      lambda: sqlite3.Cursor.execute(self, sql, *a))

    def executemany(self, sql, *a):
        return _point(classify_sql(sql), normalise_sql(sql),
                      lambda: sqlite3.Cursor.executemany(self, sql, *a))

    def executescript(self, *a):
        _BYPASS[0] += 1
        return sqlite3.Cursor.executescript(self, *a)


class SimConn(sqlite3.Connection):
    def cursor(self, factory=SimCursor):
        return sqlite3.Connection.cursor(self, factory)

    def execute(self, sql, *a):
        return _point(classify_sql(sql), normalise_sql(sql),
                      lambda: sqlite3.Connection.execute(self, sql, *a))

    def commit(self):
        return _point("commit", "COMMIT", lambda: sqlite3.Connection.commit(self))

    def rollback(self):
        return _point("rollback", "ROLLBACK", lambda: sqlite3.Connection.rollback(self))

    def close(self):
        return _point("close", "CLOSE", lambda: sqlite3.Connection.close(self))


_REAL_CONNECT = dbapi2.connect
_INSTALLED = [False]


def _sim_connect(*a, **k):
    if _CH is None or _PASS[0]:
        return _REAL_CONNECT(*a, **k)
    k["factory"] = SimConn
    k["timeout"] = 0
    c = _point("connect", "CONNECT", lambda: _REAL_CONNECT(*a, **k))
    _CONNS.append(weakref.ref(c))
    return c


def install_seam():
    if not _INSTALLED[0]:
        dbapi2.connect = _sim_connect
        sqlite3.connect = _sim_connect
        _INSTALLED[0] = True


# --------------------------------------------------------------------------
# parent side
# --------------------------------------------------------------------------

class Proc:
    __slots__ = ("idx", "pid", "w", "r", "state", "wake", "stalled_until", "results",
                 "pending", "script", "last_kind", "steps", "lingering", "txn_open", "clean_hold", "injected_failure")

    def __init__(self, idx, pid, w, r, script):
        self.idx = idx
        self.pid = pid
        self.w = w
        self.r = r
        self.state = "ready"     # ready | sleeping | done | crashed | lingering
        self.wake = 0
        self.stalled_until = 0
        self.results = []        # [(opidx, "ret", value) | (opidx, "exc", cls, msg, kind)]
        self.pending = None      # last message from the child: what it will do when given the token
        self.script = script
        self.last_kind = None
        self.steps = 0
        self.lingering = False
        self.txn_open = False          # a write statement was executed and neither commit nor rollback since
        self.clean_hold = True         # ... and nothing but that successful write happened since (the window every writer needs)
        self.injected_failure = False  # the open transaction's failure was an injected I/O error


class Decider:
    """Source of every decision: a PRNG (search), or a recorded list (replay/shrink)."""

    def __init__(self, sched_rng=None, fault_rng=None, recorded=None, strict=False):
        self.sched_rng = sched_rng
        self.fault_rng = fault_rng
        self.recorded = list(recorded) if recorded is not None else None
        self.pos = 0
        self.strict = strict
        self.taken = []          # the decisions actually taken, explicit: [actor, fault|None]
        self.diverged = False


class Handle:
    """A persistent simulated-process body: one real OS process that runs one script per simulated run.

    Forking is by far the most expensive operation in this sandbox (and scales inversely with the
    number of cores in use), so bodies are reused across runs: at the end of its script a body closes
    every database connection it opened -- which is what the death of a process does to them -- and
    waits for the next script.  A crash fault is still a real SIGKILL of the body; a killed body is
    simply not reused.
    """
    __slots__ = ("pid", "w", "r")

    def __init__(self, pid, w, r):
        self.pid, self.w, self.r = pid, w, r


_POOL = []          # idle bodies of this worker process


def _child_loop(child_main, child_teardown):
    while True:
        cmd = _recv(_CH[0])
        if cmd is None or cmd[0] == "exit":
            os._exit(0)
        if cmd[0] == "reset":
            _PASS[0] = True
            try:
                child_teardown()
            finally:
                _PASS[0] = False
            _send(_CH[1], ("reset-ok",))
            continue
        if cmd[0] != "run":
            raise HarnessError(f"body: unexpected command {cmd!r}")
        script, linger = cmd[1], cmd[2]
        _BYPASS[0] = 0
        tok = _recv(_CH[0])          # the "start" scheduling point
        if tok is None:
            os._exit(9)
        _VNOW[0] = tok[2]
        _install_clock()
        failed = [False]

        def report(m):
            if m[0] == "exc":
                failed[0] = True
            _send(_CH[1], m)
        child_main(script, report)
        if not (failed[0] and linger):
            # the script is over: the simulated process exits, its connections die with it
            _PASS[0] = True
            try:
                child_teardown()
            finally:
                _PASS[0] = False
        _send(_CH[1], ("done", _BYPASS[0], _PREV_FAILED[0], _in_txn()))
        _PREV_FAILED[0] = False


_FROZEN = [False]


def _fork_body(child_main, child_teardown):
    if not _FROZEN[0]:
        # keep the collector of the bodies from touching (and so copying) every inherited object page
        import gc
        gc.collect()
        gc.freeze()
        _FROZEN[0] = True
    p2c = os.pipe()
    c2p = os.pipe()
    pid = os.fork()
    if pid == 0:
        global _CH
        try:
            os.close(p2c[1])
            os.close(c2p[0])
            for h in _POOL:           # do not keep other bodies' pipes alive
                for fd in (h.w, h.r):
                    try:
                        os.close(fd)
                    except OSError:
                        pass
            _CH = (p2c[0], c2p[1])
            _child_loop(child_main, child_teardown)
        except BaseException as e:  # noqa
            try:
                _send(_CH[1], ("childerror", type(e).__name__, str(e)[:200]))
            except Exception:
                pass
        finally:
            os._exit(0)
    os.close(p2c[0])
    os.close(c2p[1])
    return Handle(pid, p2c[1], c2p[0])


def spawn(idx, script, child_main, child_teardown, linger=False):
    h = _POOL.pop() if _POOL else _fork_body(child_main, child_teardown)
    _send(h.w, ("run", script, linger))
    return Proc(idx, h.pid, h.w, h.r, script)


def release(p: Proc):
    """End of run: ask a surviving body to drop everything and return it to the pool."""
    if p.pid is None:
        return
    try:
        _send(p.w, ("reset",))
        m = _recv(p.r, timeout=REAL_WATCHDOG_S)
    except (OSError, HarnessError):
        m = None
    if m is not None and m[0] == "reset-ok":
        _POOL.append(Handle(p.pid, p.w, p.r))
        p.pid = None
    else:
        reap(p, kill=True)


def shutdown_pool():
    while _POOL:
        h = _POOL.pop()
        q = Proc(-1, h.pid, h.w, h.r, None)
        reap(q, kill=True)


def reap(p: Proc, kill=True):
    if p.pid is None:
        return
    if kill:
        try:
            os.kill(p.pid, signal.SIGKILL)
        except ProcessLookupError:
            pass
    try:
        os.waitpid(p.pid, 0)
    except ChildProcessError:
        pass
    for fd in (p.w, p.r):
        try:
            os.close(fd)
        except OSError:
            pass
    p.pid = None


class SimResult:
    def __init__(self):
        self.log = EventLog()
        self.procs = []
        self.vclock = 0
        self.steps = 0
        self.decisions = []          # explicit: [actor, fault|None] per step
        self.faults_fired = {}
        self.probes = {}
        self.coarse_trace = []       # [(actor, kind)] over COARSE_KINDS, in execution order
        self.diverged = False
        self.stuck = False
        self.ended_by = ""
        self.last_fault_step = -1
        self.bypass = 0

    def probe(self, name, n=1):
        self.probes[name] = self.probes.get(name, 0) + n

    def fired(self, name):
        self.faults_fired[name] = self.faults_fired.get(name, 0) + 1


def simulate(scripts, child_main, child_teardown, cfg, sched_rng=None, fault_rng=None, recorded=None,
             strict=False, on_message=None, restart_script=None):
    """Run one simulated execution.

    scripts      list of per-process scripts (opaque to the engine)
    child_main   f(script, report) executed in the child; report(("ret"|"exc", ...)) is non-blocking
    cfg          dict: mode uniform|pct|coarse, pct_d, p_crash, p_stall, p_ioerr, restart(bool),
                 linger(bool), max_steps, max_vms, fault_horizon_steps (no fault is injected after that many steps)
    recorded     explicit decision list [[actor, fault|None], ...] (replay / shrinking)
    strict       replay must not diverge (HarnessError if it does)
    """
    install_seam()
    res = SimResult()
    log = res.log
    procs = res.procs
    for i, sc in enumerate(scripts):
        procs.append(spawn(i, sc, child_main, child_teardown, bool(cfg.get('linger'))))
    for p in procs:
        p.pending = ("start", "", "")
    mode = cfg.get("mode", "uniform")
    max_steps = cfg.get("max_steps", 6000)
    prio = {}
    change_points = set()
    if mode == "pct" and sched_rng is not None:
        for p in procs:
            prio[p.idx] = sched_rng.random() + 1.0
        est = 70 * len(procs)
        for _ in range(cfg.get("pct_d", 2)):
            change_points.add(sched_rng.randrange(est))
    current = None
    rec_pos = 0
    restarts_left = 2 if cfg.get("restart") else 0

    def runnable():
        return [p for p in procs
                if p.state == "ready" and p.stalled_until <= res.vclock] + \
               [p for p in procs
                if p.state == "sleeping" and p.wake <= res.vclock and p.stalled_until <= res.vclock]

    try:
        while True:
            rs = runnable()
            rs.sort(key=lambda p: p.idx)
            if not rs:
                waits = [max(p.wake, p.stalled_until) for p in procs if p.state == "sleeping"] + \
                        [p.stalled_until for p in procs if p.state == "ready"]
                if not waits:
                    res.ended_by = "quiescent"
                    break
                nxt = min(waits)
                if nxt > cfg.get("max_vms", 120000):
                    res.stuck = True
                    res.ended_by = "virtual-time-cap"
                    break
                log.add("sim", "clock", nxt)
                res.vclock = nxt
                continue
            if res.steps >= max_steps:
                res.stuck = True
                res.ended_by = "step-cap"
                break
            # ---- decide who runs and whether a fault is injected -------------------------
            fault = None
            if recorded is not None:
                if rec_pos < len(recorded):
                    want, fault = recorded[rec_pos]
                    rec_pos += 1
                    cand = [p for p in rs if p.idx == want]
                    if cand:
                        p = cand[0]
                    else:
                        if strict:
                            raise HarnessError(f"REPLAY-DIVERGED at step {res.steps}: actor {want} not runnable")
                        res.diverged = True
                        fault = None
                        p = current if current in rs else rs[0]
                else:
                    if strict:
                        raise HarnessError(f"REPLAY-DIVERGED: decisions exhausted at step {res.steps}")
                    p = current if current in rs else rs[0]
            else:
                if mode == "uniform":
                    p = sched_rng.choice(rs)
                elif mode == "coarse":
                    if current in rs and current.pending[0] not in COARSE_KINDS:
                        p = current
                    else:
                        p = sched_rng.choice(rs)
                else:  # pct
                    if res.steps in change_points and current is not None:
                        prio[current.idx] = min(prio.values()) - 1.0
                    for q in rs:
                        if q.idx not in prio:
                            prio[q.idx] = sched_rng.random() + 1.0
                    p = max(rs, key=lambda q: prio[q.idx])
                # faults: one draw per enabled kind per step, whether or not it fires
                if fault_rng is not None:
                    pc = cfg.get("p_crash", 0.0)
                    if pc:
                        bias = 8.0 if p.last_kind in ("count-session", "insert-session", "create-session", "fs-excl-create") else 1.0
                        if fault_rng.random() < pc * bias and p.pending[0] != "start":
                            fault = ["crash"]
                    ps = cfg.get("p_stall", 0.0)
                    if ps:
                        r1 = fault_rng.random()
                        dur = int(100 * (200 ** fault_rng.random()))      # 100 ms .. 20 s
                        bias = 6.0 if (p.last_kind or "").startswith(("insert-", "create-")) else 1.0
                        if p.txn_open and p.pending[0] not in ("commit", "rollback", "close"):
                            bias = 40.0       # about to do more work inside an open write transaction: the most telling place to stall
                            dur = max(dur, 6000)
                        if fault is None and r1 < ps * bias:
                            fault = ["stall", dur]
                    pi = cfg.get("p_ioerr", 0.0)
                    if pi:
                        r2 = fault_rng.random()
                        which = fault_rng.random()
                        if fault is None and r2 < pi and p.pending[0] not in ("start", "close", "rollback", "sleep"):
                            fault = ["ioerr", "disk I/O error" if which < 0.5 else "database or disk is full"]
            if fault is not None and recorded is None and res.steps >= cfg.get("fault_horizon_steps", 120):
                # faults stop after the horizon (the draws above are still made, so the PRNG streams stay aligned):
                # liveness is "every process finishes within the step / virtual-time caps once faults have stopped"
                fault = None
            current = p
            res.decisions.append([p.idx, fault])
            res.steps += 1
            p.steps += 1
            # ---- apply -------------------------------------------------------------
            if fault and fault[0] == "crash":
                log.add(p.idx, "CRASH", p.pending[0])
                res.fired("crash")
                res.last_fault_step = res.steps
                if p.last_kind == "count-session":
                    res.probe("crash-after-count")
                if p.last_kind == "insert-session":
                    res.probe("crash-between-insert-and-commit")
                reap(p, kill=True)
                p.state = "crashed"
                if on_message:
                    on_message(res, p, ("crashed",))
                if restarts_left > 0 and restart_script is not None:
                    restarts_left -= 1
                    q = spawn(len(procs), restart_script, child_main, child_teardown, bool(cfg.get('linger')))
                    q.pending = ("start", "", "")
                    procs.append(q)
                    res.fired("restart")
                    log.add(q.idx, "RESTART", None)
                continue
            if fault and fault[0] == "stall":
                p.stalled_until = res.vclock + fault[1]
                log.add(p.idx, "STALL", fault[1])
                res.fired("stall")
                res.last_fault_step = res.steps
                continue
            inject = None
            if fault and fault[0] == "ioerr":
                inject = fault[1]
                res.fired("ioerr")
                res.last_fault_step = res.steps
                log.add(p.idx, "IOERR", [p.pending[0], inject])
            executed_kind = p.pending[0]
            _send(p.w, ("go", inject, res.vclock))
            p.state = "ready"
            while True:
                m = _recv(p.r, timeout=REAL_WATCHDOG_S)
                if m is None:
                    raise HarnessError(f"child {p.idx} died unexpectedly after {executed_kind}")
                tag = m[0]
                if tag in ("ret", "exc", "info"):
                    log.add(p.idx, tag, list(m[1:]))
                    if tag != "info":
                        p.results.append(m)
                    if on_message:
                        on_message(res, p, m)
                    continue
                break
            if tag == "sleep":
                # the code under test sleeps (a retry loop of its own): runnable again after that much virtual time
                p.last_kind = "sleep"
                p.state = "sleeping"
                p.wake = res.vclock + m[1]
                p.pending = ("sleep", "", "")
                if p.txn_open:
                    p.clean_hold = False       # sleeping while holding the write lock
                log.add(p.idx, "sleep", m[1])
                res.probe("code-under-test-slept")
                continue
            if tag == "busy":
                # the statement was attempted and found the database locked: no effect
                p.state = "sleeping"
                p.wake = res.vclock + m[3]
                log.add(p.idx, "busy", [m[1], m[3]])
                res.probe("busy-wait-entered")
                continue
            # the pending statement was executed (or raised into the code under test)
            if not inject:
                p.last_kind = executed_kind
                if executed_kind in COARSE_KINDS:
                    res.coarse_trace.append((p.idx, executed_kind))
            prev_failed = (m[3] if tag == "yield" and len(m) > 3 else (m[2] if tag == "done" and len(m) > 2 else False))
            never_ran = prev_failed == "busy"
            prev_failed = bool(prev_failed)
            # Who holds the write lock, and only for the window every writer needs?
            #   ground truth: the body reports whether one of its connections is inside a transaction (sqlite3's own flag);
            #   a process holds the WRITE lock if it is inside a transaction in which it executed a write statement.
            #   needed:   [successful write .. its commit]   and   [failed write .. its rollback]
            #   needless: any other statement executed while that transaction is open
            in_txn = bool(m[4]) if tag == "yield" and len(m) > 4 else (bool(m[3]) if tag == "done" and len(m) > 3 else False)
            if not in_txn:
                p.txn_open = False
                p.clean_hold = True
                p.injected_failure = False
            else:
                if is_write_kind(executed_kind) and not never_ran and not inject:
                    if p.txn_open:
                        p.clean_hold = False       # a further write inside an already open write transaction
                    p.txn_open = True
                elif p.txn_open and executed_kind not in ("start", "commit", "rollback", "close"):
                    p.clean_hold = False           # reads / reflection while the write lock is held
                if inject and p.txn_open:
                    p.injected_failure = True
            if tag == "yield":
                p.pending = (m[1], m[2], "")
                log.add(p.idx, "exec", [executed_kind, m[1]])
            elif tag == "done":
                log.add(p.idx, "done", None)
                res.bypass += m[1]
                failed = any(r[0] == "exc" for r in p.results)
                if failed and cfg.get("linger"):
                    p.state = "lingering"      # parked forever, keeping whatever it holds
                    p.lingering = True
                    res.fired("linger")
                    log.add(p.idx, "LINGER", None)
                else:
                    p.state = "done"           # the body has already closed its connections
                if on_message:
                    on_message(res, p, ("finished",))
            elif tag == "childerror":
                raise HarnessError(f"child {p.idx} harness error: {m[1]} {m[2]}")
            else:
                raise HarnessError(f"unknown message {m!r}")
    finally:
        for p in procs:
            if p.state in ("done", "lingering") and p.pid is not None:
                release(p)
            else:
                reap(p, kill=True)
    return res
