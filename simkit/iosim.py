"""iosim -- the parsers' byte streams behind a recording seam + a virtual step clock (DESIGN.md 4.5 / 4.6).

Seam: the module-global name `io` of androguard.core.dex / .axml / .apk and apkInspector.* is rebound to a shim
whose BytesIO / BufferedReader are real subclasses of the io classes that record every read.  Faults live in the
*store* (the bytes handed to the parser) and are applied before the parse starts; the shim records and counts.

Clock: wall time is replaced by a step counter = sys.monitoring LINE events in androguard/ and apkInspector/ code
plus stream operations.  A run that exceeds its budget is *flagged*, observed for an extension window and then
classified (loop without stream progress -> violation; finished during the extension -> slow; still consuming new
bytes -> inconclusive).
"""
from __future__ import annotations

import io as _io
import os
import sys
import types

from .core import HarnessError


class StepStop(BaseException):
    """Raised from the monitoring callback into the parser to end a run (never caught by `except Exception`)."""

    def __init__(self, verdict, owner, where):
        super().__init__(verdict)
        self.verdict = verdict
        self.owner = owner
        self.where = where


# --------------------------------------------------------------------------
# recording streams
# --------------------------------------------------------------------------

class Recorder:
    __slots__ = ("ops", "streams", "marked", "reads", "log", "keep", "eof_reads", "maps")

    def __init__(self, keep=False):
        self.ops = 0            # stream operations (part of the step clock)
        self.streams = 0
        self.marked = 0         # distinct store bytes ever served (progress measure)
        self.reads = 0
        self.eof_reads = 0      # reads that were served nothing or less than asked
        self.keep = keep
        self.log = []           # (stream id, pos, asked, got)   only when keep
        self.maps = []


REC = Recorder()


def _mark(stream, pos, got):
    if got <= 0:
        return
    m = stream._verif_map
    end = pos + got
    if end > len(m):
        end = len(m)
    if pos >= end:
        return
    seg = m[pos:end]
    new = seg.count(0)
    if new:
        m[pos:end] = b"\x01" * (end - pos)
        REC.marked += new


class SimBytesIO(_io.BytesIO):
    def __init__(self, initial_bytes=b""):
        super().__init__(initial_bytes)
        REC.streams += 1
        self._verif_id = REC.streams
        self._verif_wrapped = False
        self._verif_map = bytearray(len(initial_bytes) if initial_bytes is not None else 0)
        if REC.keep:
            REC.maps.append(self._verif_map)

    def read(self, size=-1):
        if self._verif_wrapped:
            return super().read(size)
        pos = super().tell()
        data = super().read(size)
        REC.ops += 1
        REC.reads += 1
        got = len(data)
        if size is not None and size >= 0 and got < size or (size is None or size < 0) and got == 0:
            REC.eof_reads += 1
        _mark(self, pos, got)
        if REC.keep:
            REC.log.append((self._verif_id, pos, size if size is not None else -1, got))
        return data

    def seek(self, *a):
        REC.ops += 1
        return super().seek(*a)


class SimBufferedReader(_io.BufferedReader):
    def __init__(self, raw, *a, **k):
        super().__init__(raw, *a, **k)
        if isinstance(raw, SimBytesIO):
            raw._verif_wrapped = True
            self._verif_map = raw._verif_map
            self._verif_id = raw._verif_id
        else:
            REC.streams += 1
            self._verif_map = bytearray(0)
            self._verif_id = REC.streams

    def read(self, size=-1):
        pos = super().tell()
        data = super().read(size)
        REC.ops += 1
        REC.reads += 1
        got = len(data)
        if size is not None and size >= 0 and got < size or (size is None or size < 0) and got == 0:
            REC.eof_reads += 1
        _mark(self, pos, got)
        if REC.keep:
            REC.log.append((self._verif_id, pos, size if size is not None else -1, got))
        return data

    def seek(self, *a):
        REC.ops += 1
        return super().seek(*a)


class _SimIOModule(types.ModuleType):
    def __getattr__(self, name):
        return getattr(_io, name)


SIMIO = _SimIOModule("io")
SIMIO.BytesIO = SimBytesIO
SIMIO.BufferedReader = SimBufferedReader

_INSTALLED = [False]
_PREFIXES = []


def install():
    """Rebind `io` in the parser modules; set up the step clock.  Idempotent."""
    if _INSTALLED[0]:
        return
    import androguard.core.apk as m_apk
    import androguard.core.axml as m_axml
    import androguard.core.dex as m_dex
    mods = [m_apk, m_axml, m_dex]
    import androguard
    _PREFIXES.append(os.path.dirname(os.path.abspath(androguard.__file__)) + os.sep)
    try:
        import apkInspector
        import apkInspector.axml
        import apkInspector.extract
        import apkInspector.headers
        _PREFIXES.append(os.path.dirname(os.path.abspath(apkInspector.__file__)) + os.sep)
        mods += [apkInspector.headers, apkInspector.axml, apkInspector.extract]
    except ImportError:
        pass
    for m in mods:
        if getattr(m, "io", None) is _io:
            m.io = SIMIO
    mon = sys.monitoring
    try:
        mon.use_tool_id(CLOCK.tool, "verif-stepclock")
    except ValueError:
        pass
    mon.register_callback(CLOCK.tool, mon.events.LINE, CLOCK.on_line)
    _INSTALLED[0] = True


# --------------------------------------------------------------------------
# step clock
# --------------------------------------------------------------------------

class StepClock:
    tool = 3

    def __init__(self):
        self.count = 0
        self.budget = 0
        self.cap = 0
        self.phase = 0            # 0 normal, 1 extension window
        self.flag_at = None
        self.snapshots = []       # [(step, progress, [frames])]
        self.next_snap = 0
        self.active = False
        self.known = {}           # code object -> bool (ours?)
        self.pending = None       # a StepStop that was raised: re-raised until parse() sees it (bare excepts)

    def start(self, budget, cap_factor=20):
        self.count = 0
        self.budget = budget
        self.cap = budget * cap_factor
        self.phase = 0
        self.flag_at = None
        self.snapshots = []
        self.next_snap = budget
        self.active = True
        self.pending = None
        sys.monitoring.set_events(self.tool, sys.monitoring.events.LINE)

    def stop(self):
        self.active = False
        sys.monitoring.set_events(self.tool, 0)
        # frames must not be kept alive beyond the run
        self.snapshots = [(s, p, [self._fname(f) for f in fr]) for s, p, fr in self.snapshots]

    @staticmethod
    def _fname(f):
        if isinstance(f, str):
            return f
        return "%s:%s" % (os.path.basename(f.f_code.co_filename), f.f_code.co_name)

    def _stack(self):
        f = sys._getframe(2)
        frames = []
        while f is not None:
            fn = f.f_code.co_filename
            if any(fn.startswith(p) for p in _PREFIXES):
                frames.append(f)
            f = f.f_back
        frames.reverse()
        return frames

    def on_line(self, code, line):
        ours = self.known.get(code)
        if ours is None:
            fn = code.co_filename
            ours = any(fn.startswith(p) for p in _PREFIXES)
            self.known[code] = ours
        if not ours:
            return sys.monitoring.DISABLE
        if not self.active:
            return None
        if self.pending is not None:
            raise self.pending
        self.count += 1
        total = self.count + REC.ops
        if total < self.next_snap:
            return None
        # budget reached (phase 0) or a snapshot point inside the extension window
        progress = REC.marked + REC.streams
        self.snapshots.append((total, progress, self._stack()))
        if self.phase == 0:
            self.phase = 1
            self.flag_at = total
            self.next_snap = total + self.budget // 2
            return None
        if len(self.snapshots) < 3:
            self.next_snap = total + self.budget // 2
            return None
        # end of an extension window: classify
        first = self.snapshots[-3]
        if progress == first[1]:
            # no stream progress during the whole window: which frame never returned?
            common = None
            stacks = [s[2] for s in self.snapshots[-3:]]
            depth = 0
            while all(len(st) > depth for st in stacks) and all(st[depth] is stacks[0][depth] for st in stacks):
                depth += 1
            if depth > 0:
                common = stacks[0][depth - 1]
                self.pending = StepStop("loop", "%s" % common.f_code.co_name, self._fname(common))
                raise self.pending
        if total >= self.cap:
            st = self._stack()
            self.pending = StepStop("inconclusive", st[-1].f_code.co_name if st else "?", "")
            raise self.pending
        self.next_snap = total + self.budget // 2
        return None


CLOCK = StepClock()
_DEVNULL = open(os.devnull, "w")


def budget_for(n: int) -> int:
    """B(n) = min(c1*n + c0, cap): >= 85x above the worst pristine steps/byte ratio measured on the corpus."""
    return min(500 * n + 2_000_000, 40_000_000)


# --------------------------------------------------------------------------
# one parse under the clock
# --------------------------------------------------------------------------

PARSERS = ("dex", "axml", "arsc", "apk")
_APK_SHELL = [None]


def _wrap_in_apk(dex_bytes):
    """a small valid archive (corpus/apk/Test-debug.apk) whose classes.dex is replaced by dex_bytes"""
    import io as _rio
    import zipfile
    if _APK_SHELL[0] is None:
        from .core import CORPUS_DIR
        with zipfile.ZipFile(os.path.join(CORPUS_DIR, "apk", "Test-debug.apk")) as z:
            _APK_SHELL[0] = [(zi, z.read(zi.filename)) for zi in z.infolist()]
    out = _rio.BytesIO()
    with zipfile.ZipFile(out, "w") as z:
        for zi, d in _APK_SHELL[0]:
            z.writestr(zi, dex_bytes if zi.filename == "classes.dex" else d, compress_type=zi.compress_type)
    return out.getvalue()


REAL_TIME_LIMIT_S = 15.0      # one parse of a <= 64 KB input takes milliseconds
_ALARM = [False]


def _on_alarm(signum, frame):
    """Real-time back-stop: native code (regular expressions, ...) is invisible to the step clock."""
    if not CLOCK.active and not _ALARM[0]:
        return
    f = frame
    owner, where = "?", ""
    while f is not None:
        fn = f.f_code.co_filename
        if any(fn.startswith(p) for p in _PREFIXES):
            owner = f.f_code.co_name
            where = "%s:%s" % (os.path.basename(fn), f.f_code.co_name)
            break
        f = f.f_back
    CLOCK.pending = StepStop("native-stall", owner, where)
    raise CLOCK.pending


def parse(kind: str, data: bytes, keep_log=False, budget=None, clock=True, real_timeout=None):
    """Run one of the four entry points named by C35 on `data`.

    Returns dict(outcome 'ok'|'exc:<Type>'|'loop'|'slow'|'inconclusive', steps, owner, where, reads, eof_reads, log, obj)
    """
    install()
    global REC
    REC.ops = 0
    REC.streams = 0
    REC.marked = 0
    REC.reads = 0
    REC.eof_reads = 0
    REC.keep = keep_log
    REC.log = []
    REC.maps = []
    b = budget or budget_for(len(data))
    owner = where = None
    obj = None
    saved_stdout = sys.stdout
    sys.stdout = _DEVNULL          # the parsers print() diagnostics for some malformed inputs
    if clock:
        CLOCK.start(b)
    else:
        CLOCK.count = 0
        CLOCK.flag_at = None
    if real_timeout:
        import signal
        import threading
        if threading.current_thread() is threading.main_thread():
            signal.signal(signal.SIGALRM, _on_alarm)
            _ALARM[0] = True
            signal.setitimer(signal.ITIMER_REAL, real_timeout)
        else:
            real_timeout = None
    try:
        try:
            if kind == "dex":
                from androguard.core.dex import DEX
                obj = DEX(data)
            elif kind == "apk":
                # (for C09) the DEX is taken out of an APK object: DEX(APK(...)) -- a third way into DEX.__init__
                if data[:2] != b"PK":
                    from androguard.core.apk import APK as _APK
                    from androguard.core.dex import DEX
                    obj = DEX(_APK(_wrap_in_apk(data), raw=True))
                else:
                    from androguard.core.apk import APK
                    obj = APK(data, raw=True)
            elif kind == "odex":
                from androguard.core.dex import ODEX
                obj = ODEX(data)
            elif kind == "axml":
                from androguard.core.axml import AXMLPrinter
                obj = AXMLPrinter(data)
            elif kind == "arsc":
                from androguard.core.axml import ARSCParser
                obj = ARSCParser(data)
            else:
                raise HarnessError("unknown parser " + kind)
            outcome = "ok"
        except StepStop as s:
            outcome, owner, where = s.verdict, s.owner, s.where
        except HarnessError:
            raise
        except (Exception, RecursionError, MemoryError) as e:
            outcome = "exc:" + type(e).__name__
    finally:
        if real_timeout:
            import signal
            signal.setitimer(signal.ITIMER_REAL, 0)
            _ALARM[0] = False
        CLOCK.stop()
        sys.stdout = saved_stdout
    steps = CLOCK.count + REC.ops
    if outcome in ("ok",) or outcome.startswith("exc:"):
        if CLOCK.flag_at is not None:
            outcome = "slow:" + outcome
    return {"outcome": outcome, "steps": steps, "owner": owner, "where": where, "reads": REC.reads,
            "eof_reads": REC.eof_reads, "log": REC.log, "obj": obj, "budget": b, "maps": REC.maps,
            "flagged": CLOCK.flag_at is not None}
