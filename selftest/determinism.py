"""Determinism self-test (DESIGN.md 3.5).

For one property: the same run indices are executed in fresh interpreters
  A: forward order, harness PYTHONHASHSEED=0
  B: reverse order, harness PYTHONHASHSEED=4242     (different hash seed, different history in the process)
  C: forward order, split over several concurrent processes (different machine load / worker count)
and the per-run digests (event-log digest + verdict signatures) must be identical.
Exit 0 identical, 2 otherwise (a harness defect, never a VIOLATION).

usage: python selftest/determinism.py C36 [n_runs] [n_procs]
"""
import os
import subprocess
import sys

HERE = os.path.dirname(os.path.dirname(os.path.abspath(__file__)))
PY = os.environ.get("VERIF_PYTHON", "/venv/bin/python")


def digests(prop, lo, hi, hashseed, rev=False):
    env = dict(os.environ, PYTHONHASHSEED=str(hashseed), PYTHONDONTWRITEBYTECODE="1", PYTHONPATH=HERE)
    cmd = [PY, os.path.join(HERE, "run_check.py"), prop, "--digests", str(lo), str(hi)] + (["rev"] if rev else [])
    return subprocess.Popen(cmd, env=env, stdout=subprocess.PIPE, stderr=subprocess.PIPE, text=True, cwd=HERE)


def collect(procs):
    out = {}
    for p in procs:
        so, se = p.communicate(timeout=3600)
        if p.returncode != 0:
            print(se[-2000:], file=sys.stderr)
            raise SystemExit(2)
        for line in so.splitlines():
            i, d = line.split(" ", 1)
            out[int(i)] = d
    return out


def main():
    prop = sys.argv[1].upper()
    n = int(sys.argv[2]) if len(sys.argv) > 2 else 24
    k = int(sys.argv[3]) if len(sys.argv) > 3 else 4
    a = collect([digests(prop, 0, n, 0)])
    b = collect([digests(prop, 0, n, 4242, rev=True)])
    step = max(1, (n + k - 1) // k)
    c = collect([digests(prop, lo, min(n, lo + step), 0) for lo in range(0, n, step)])
    bad = [i for i in range(n) if not (a.get(i) == b.get(i) == c.get(i))]
    print(f"determinism {prop}: {n} runs x 3 configurations, {len(set(a.values()))} distinct digests, {len(bad)} mismatches")
    for i in bad[:10]:
        print("  run", i, a.get(i), b.get(i), c.get(i))
    return 2 if bad else 0


if __name__ == "__main__":
    sys.exit(main())
