"""Sensitivity self-test: every kept seeded change under /verif/seeded/<id>/ must make the check of its property exit 1.

For each seeded/<id>/ (patch.diff, demo.py, meta.json) a scratch copy of /repo's androguard package is made under
/var/tmp/verif-mut-<id>/ (never in /repo or /verif), the patch is applied there, and
    VERIF_REPO=/var/tmp/verif-mut-<id> ./check <property> quick
is run; expected: exit status 1 and a VIOLATION line.  The scratch copy is removed immediately afterwards.
Results are written to seeded/<id>/result.json (not evidence; informational).

usage: python selftest/sensitivity.py [id ...]      (default: all)
"""
import json
import os
import shutil
import subprocess
import sys
import time

HERE = os.path.dirname(os.path.dirname(os.path.abspath(__file__)))
REPO = os.environ.get("VERIF_REPO_BASE", "/repo")


def run_one(sid):
    d = os.path.join(HERE, "seeded", sid)
    meta = json.load(open(os.path.join(d, "meta.json")))
    prop = meta["property"]
    scratch = "/var/tmp/verif-mut-%s" % sid
    shutil.rmtree(scratch, ignore_errors=True)
    os.makedirs(scratch)
    try:
        shutil.copytree(os.path.join(REPO, "androguard"), os.path.join(scratch, "androguard"),
                        ignore=shutil.ignore_patterns("__pycache__"))
        p = subprocess.run(["patch", "-p1", "-s", "-d", scratch, "-i", os.path.join(d, "patch.diff")],
                           capture_output=True, text=True)
        based_on = "working tree of " + REPO
        if p.returncode != 0 and meta.get("base_commit"):
            # /repo has moved on since the change was written: apply it to the commit it was written against
            shutil.rmtree(os.path.join(scratch, "androguard"))
            ar = subprocess.run("git -C %s archive %s androguard | tar -x -C %s" % (REPO, meta["base_commit"], scratch),
                                shell=True, capture_output=True, text=True)
            p = subprocess.run(["patch", "-p1", "-s", "-d", scratch, "-i", os.path.join(d, "patch.diff")],
                               capture_output=True, text=True)
            based_on = "commit " + meta["base_commit"]
        if p.returncode != 0:
            return {"id": sid, "property": prop, "applied": False, "detail": (p.stdout + p.stderr)[-400:]}
        env = dict(os.environ, VERIF_REPO=scratch, VERIF_EVIDENCE_DIR=os.path.join(scratch, "evidence"),
                   VERIF_STOP_EARLY=os.environ.get("VERIF_STOP_EARLY", "1"))   # stop handing out runs after the first violation
        env.update(meta.get("check_env", {}))
        t = time.time()
        tier = meta.get("tier", "quick")
        q = subprocess.run([os.path.join(HERE, "check"), prop, tier], capture_output=True, text=True, env=env, cwd=HERE)
        lines = [l for l in q.stdout.splitlines() if l.startswith("VIOLATION")]
        head = subprocess.run(["git", "-C", HERE, "rev-parse", "--short", "HEAD"], capture_output=True, text=True).stdout.strip()
        dirty = bool(subprocess.run(["git", "-C", HERE, "status", "--porcelain", "checks", "simkit", "gen"], capture_output=True, text=True).stdout.strip())
        return {"id": sid, "property": prop, "applied": True, "applied_to": based_on, "verif_commit": head + ("+dirty" if dirty else ""), "exit": q.returncode, "caught": q.returncode == 1 and bool(lines),
                "violations": [l[:300] for l in lines[:4]], "wall_s": round(time.time() - t, 1),
                "stderr_tail": q.stderr[-300:] if q.returncode not in (0, 1) else ""}
    finally:
        shutil.rmtree(scratch, ignore_errors=True)


def main():
    ids = sys.argv[1:] or sorted(x for x in os.listdir(os.path.join(HERE, "seeded"))
                                 if os.path.exists(os.path.join(HERE, "seeded", x, "meta.json")))
    bad = 0
    for sid in ids:
        r = run_one(sid)
        json.dump(r, open(os.path.join(HERE, "seeded", sid, "result.json"), "w"), indent=1)
        print(sid, r.get("property"), "CAUGHT" if r.get("caught") else "MISSED", r.get("exit"), (r.get("violations") or [""])[0][:160])
        bad += 0 if r.get("caught") else 1
    return 1 if bad else 0


if __name__ == "__main__":
    sys.exit(main())
