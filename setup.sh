#!/bin/bash
# Offline setup: nothing is built (pure Python). Verifies that the interpreter and the repo's dependencies are usable.
set -e
cd "$(dirname "$0")"
PY="${VERIF_PYTHON:-/venv/bin/python}"
"$PY" - <<'PYEOF'
import sys
sys.path.insert(0, "/repo")
sys.dont_write_bytecode = True
import androguard, dataset, sqlalchemy, asn1crypto, cryptography, lxml  # noqa
assert androguard.__file__.startswith("/repo/"), androguard.__file__
print("setup ok: python", sys.version.split()[0], "androguard", androguard.__file__)
PYEOF
mkdir -p out evidence
