"""Regenerates MANIFEST.json from the table below (keeps it valid and in one place)."""
import json
import re

NA = {}
for line in open("DESIGN.md"):
    m = re.match(r"\| (C\d\d) \| (.+) \|\s*$", line)
    if m and not m.group(2).startswith("**"):
        NA[m.group(1)] = m.group(2).strip()

CHECKS = {
 "C36": dict(engine="procsim", category="exploration", ref="4.1",
   technique="deterministic simulation: real forked processes stepped at every DB-API call (and at sleeps / exclusive file creation of the code under test) by a seeded scheduler, with crash (SIGKILL) / stall / I/O-error / restart / linger faults, a virtual busy-timeout clock and a fault horizon after which bounded progress is required; invariants on identifiers checked online and on the final table",
   text="Seeded search over interleavings and fault sequences of 2-4 real OS processes creating sessions (Session(), get_default_session, AnalyzeDex, later addAPK/addDEX/event work) on one SQLite file, fresh, pre-populated by the code under test, written by Session.save(file) or written by the unchanged code; every run is one exactly replayable schedule. Sampling, not proof: a clean batch is evidence for the explored interleavings only.",
   note="Trusted: the DB-API seam (sqlite3 Connection/Cursor subclasses), the virtual re-implementation of SQLite's busy handler, tmpfs as the file system. Not covered: other database back ends, several hosts."),
 "C17": dict(engine="histsim", category="exploration", ref="4.3",
   technique="deterministic simulation of API-call histories: seeded sequences of rename/reload/query/disassemble operations on one DEX object, checked step by step against a dictionary reference model, with delta-debugging minimisation and exact replay",
   text="Seeded search over histories (length 1-30) on generated DEX files built to share names and on corpus files; every item and every const-string is compared with the model. Sampling, not proof.",
   note="Trusted: gen/dexasm.py (self-checked), the pristine parse as source of initial names. No fault dimension exists for this property."),
 "C16": dict(engine="histsim", category="exploration", ref="4.4",
   technique="deterministic simulation of API-call histories: seeded class models split into 1-4 DEX files, every add order with interleaved queries, create_xref once; name-based summary compared tuple by tuple with the single-DEX reference analysis",
   text="Seeded search over (model, partition, add order, interleaved queries, fresh or reused DEX objects, zeroed signature fields, malformed descriptors); all permutations for k<=3; threads started by the code under test are scheduled by simkit/threadsim and the history is repeated under further seeded interleavings. Real multi-DEX APKs cover the order half. Sampling, not proof.",
   note="Trusted: gen/dexasm.py (self-checked against the parser; identical code bytes in single and split builds). Reference = single-DEX analysis by the same code."),
 "C22": dict(engine="ndsim", category="exploration", ref="4.2",
   technique="deterministic simulation of the ambient nondeterminism: child interpreters with seed-derived PYTHONHASHSEED, seeded identity hash (__hash__ seam) on every androguard object, and seeded decompilation histories; all simulated processes must emit identical text per target",
   text="Seeded search over (hash seed, identity-hash layout, id() values with reuse, clock start and speed, TZ/locale/cwd, decompilation history incl. AST requests, an earlier DEX and a class rename in mid-history) for corpus, APK-embedded and generated DEX files with loops, switches, short-circuit conditions, multi-handler try/catch (also retry loops) and mixed-type registers. Sampling, not proof.",
   note="Trusted: CPython orders identity-hashed set/dict members only through __hash__; gen/dexasm.py. Real addresses are never used as a deciding seam (not reproducible here)."),
 "C35": dict(engine="iosim", category="exploration", ref="4.5",
   technique="deterministic simulation with storage-fault injection: seeded EOF / altered-byte / oversized-count / removed-terminator / offset-into-junk / broken-multi-byte faults on the parsers' byte store, liveness judged on a virtual step clock (sys.monitoring) with an extension window that watches stream progress",
   text="Seeded search over 1-3 storage faults placed with the recorded read map of the pristine parse (file level and archive-entry level), plus crafted binary-XML documents, manifests and resource tables (also cooperating in one archive), for DEX, AXML, ARSC and APK entry points; non-termination is a deterministic, replayable verdict (step clock), with a real-time back-stop for native code. Sampling, not proof.",
   note="Trusted: step clock counts Python lines in androguard/apkInspector only (C code is not counted); budget B(n)=min(500n+2e6,4e7) only flags, the verdict needs no stream progress and a frame that never returned."),
 "C09": dict(engine="iosim", category="fault_enumeration", ref="4.6",
   technique="fault enumeration at the storage seam: every single stored-byte fault at every offset >= 12 (stale checksum) plus header-field faults with recomputed checksum; the recorded read history and a wrapped ClassManager.add_type_item decide 'before any structure is parsed'",
   text="Enumerates offset x value for small corpus and generated DEX files (quick: 4 values per offset, all 255 for files <= 700 B; thorough: all 255) through DEX(buf), ODEX(buf) and DEX(APK object), pristine file parsed first, a seeded share of the runs in an interpreter started with -O / -OO; header-field faults also on valid variations of the magic; under the step clock (a check that never returns is not a rejection). Exhaustive only for the files and values of the run.",
   note="Trusted: the recording io shim; 'wrong' header values are exactly those the statement names."),
 "C32": dict(engine="iosim-archive", category="fault_enumeration", ref="4.7",
   technique="fault enumeration on archive entries as storage: every single-byte fault in .SF, signature value, signed attributes and signer id of v1-signed APKs, archive rewritten, real APK code asked for the certificate; pre-condition re-checked by an independent verifier",
   text="Tamper half of the property: enumerates offset x value per region (quick: 2 values, thorough: all 255, capped per worker), each fault followed by a short query history on one APK object (other blocks first, max_sdk_version, get_certificates_v1, earlier related archives, case-variant twin entries, re-ordered signed attributes, re-encoded signature values; a seeded share of the runs in an interpreter started with -O / -OO). Positive half only as far as crafted invalid / forged blocks go: a block that an independent verifier rejects must never yield a certificate, under histories of related archives (all such blocks are swept in every batch).",
   note="Trusted: asn1crypto for locating regions, cryptography for the independent pre-condition, own X500 canonical-name comparison for the 'same certificate reference' guard."),
 "C37": dict(engine="fssim", category="exploration", ref="4.8",
   technique="deterministic simulation of the file system: the export command runs against an in-memory POSIX-like file system (os/open/input rebound), every mkdir/create is an event checked against the output directory; seeded ENOSPC/EACCES/EEXIST faults, pre-existing contents and scripted stdin",
   text="Seeded search over adversarial class/method names (incl. two cooperating names, look-alikes, names that become '..' after clean-up steps, siblings of the output directory) x environment x file-system faults x earlier exports in the same process; tempfile/shutil redirected into the simulated file system, writes through other APIs caught in a real empty cwd; minimised violations are re-run against the real file system. Sampling, not proof.",
   note="Trusted: SimFS path resolution (component-wise, no symlinks); gen/dexasm.py. Only export_apps_to_format is driven; jar/external decompilers are out of reach offline."),
}

def build():
    checks = []
    for pid, c in sorted(CHECKS.items()):
        checks.append({
            "property_id": pid,
            "quick_cmd": f"./check {pid} quick",
            "thorough_cmd": f"./check {pid} thorough",
            "evidence_file": f"evidence/{pid}.json",
            "replay_cmd_template": f"./check {pid} --replay {{path}}",
            "engine": c["engine"],
            "level_claimed": {"category": c["category"], "text": c["text"], "design_ref": "DESIGN.md section " + c["ref"]},
            "level_note": c["note"],
            "technique": c["technique"],
        })
    na = [{"property_id": k, "reason": "not a simulation target: " + v} for k, v in sorted(NA.items()) if k not in CHECKS]
    pending = [p for p in ("C09", "C16", "C17", "C22", "C32", "C35", "C36", "C37") if p not in CHECKS]
    for p in pending:
        na.append({"property_id": p, "reason": "claimed in DESIGN.md but its check is not built yet in this commit; no claim is made until the check is registered"})
    na.sort(key=lambda e: e["property_id"])
    m = {
        "version": 1,
        "setup_cmd": "./setup.sh",
        "hooks": {
            "guard": "ANDROGUARD_VERIF",
            "enable": "no hook exists in /repo: every seam is reached from outside by rebinding module attributes / DB-API entry points (DESIGN.md section 1); the guard name is reserved",
            "baseline_off_cmd": "cd /repo && /venv/bin/python -m pytest -ra -q -p no:cacheprovider --timeout=900 --continue-on-collection-errors tests",
            "source_commits": [],
            "add_only": True,
        },
        "engines": [
            {"name": "procsim", "path": "simkit/procsim.py", "serves_properties": ["C36"],
             "kind_free_text": "deterministic simulation of real OS processes over one SQLite file, seeded scheduler + fault injection"},
            {"name": "ndsim", "path": "checks/c22.py", "serves_properties": ["C22"],
             "kind_free_text": "child interpreters whose hash seed, identity-hash layout and decompilation history are seeded simulated variables"},
            {"name": "iosim", "path": "simkit/iosim.py", "serves_properties": ["C35", "C09", "C32"],
             "kind_free_text": "recording byte-store seam (io shim / archive entries) with storage-fault injection and a virtual step clock"},
            {"name": "fssim", "path": "simkit/fssim.py", "serves_properties": ["C37"],
             "kind_free_text": "in-memory file system behind os/open/input with fault injection; every mutating call is an event"},
            {"name": "threadsim", "path": "simkit/threadsim.py", "serves_properties": ["C16"],
             "kind_free_text": "baton-passing scheduler for threads started by the code under test: seeded pre-emption at line events, cooperative Lock/RLock/Thread/ThreadPoolExecutor"},
            {"name": "histsim", "path": "simkit/driver.py", "serves_properties": ["C16", "C17"],
             "kind_free_text": "seeded API-call history search against a reference model, ddmin minimisation, exact replay"},
        ],
        "checks": checks,
        "not_applicable": na,
        "notes": "Technique family: deterministic simulation with fault injection. Exit codes: 0 held, 1 VIOLATION line printed, 2 harness could not decide. Known findings: known_findings.json (committed, never written at run time).",
    }
    return m

if __name__ == "__main__":
    m = build()
    json.dump(m, open("MANIFEST.json", "w"), indent=1)
    print(len(m["checks"]), "checks,", len(m["not_applicable"]), "not applicable")
