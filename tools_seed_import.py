#!/usr/bin/env python3
"""tools_seed_import.py <round> <desc.json> : copy verified candidate changes /tmp/seed<round>-<prop>/<k>/ into seeded/<ID>-<n>/.

desc.json = {"c32/1": {"what": "...", "needs": "..."}, ...}.  A candidate is taken only if its verify.txt (written by
tools_seed_verify.sh in the scratch worktree) says: demo clean=0 patched=1 and the suite gives the baseline result.
"""
import glob
import json
import os
import shutil
import subprocess
import sys

rnd = sys.argv[1]
desc = json.load(open(sys.argv[2]))
HERE = os.path.dirname(os.path.abspath(__file__))
base = subprocess.run(["git", "-C", "/repo", "rev-parse", "--short=8", "HEAD"], capture_output=True, text=True).stdout.strip()
for key in sorted(desc):
    p, k = key.split("/")
    src = f"/tmp/seed{rnd}-{p}/{k}"
    v = open(os.path.join(src, "verify.txt")).read().strip() if os.path.exists(os.path.join(src, "verify.txt")) else ""
    if "clean=0 patched=1" not in v or "128 passed" not in v or "6 failed" not in v:
        print("NOT TAKEN", key, v)
        continue
    P = p.upper()
    nums = [int(os.path.basename(d).split("-")[1]) for d in glob.glob(os.path.join(HERE, "seeded", P + "-*"))]
    ident = f"{P}-{max(nums) + 1}"
    dst = os.path.join(HERE, "seeded", ident)
    os.makedirs(dst)
    for f in ("patch.diff", "demo.py", "notes.md"):
        shutil.copy(os.path.join(src, f), os.path.join(dst, f))
    meta = {"property": P, "id": ident, "round": int(rnd), "base_commit": base, "what": desc[key]["what"],
            "needs_to_manifest": desc[key]["needs"],
            "origin": "written by a fresh sub-agent that saw only the property text, its own scratch worktree of /repo and "
                      "one-line descriptions of the earlier changes to avoid (nothing from /verif)",
            "confirmed": {"how": "tools_seed_verify.sh in the scratch worktree: demo.py on the clean tree and with the patch; "
                                 "full test suite with the patch", "result": v},
            "ran": ["git apply patch.diff (scratch worktree); PYTHONPATH=<worktree> /venv/bin/python demo.py -> exit 1; without "
                    "patch -> exit 0; pytest tests -> 128 passed, the 6 known failures",
                    f"selftest/sensitivity.py {ident}: scratch copy of /repo/androguard + patch, VERIF_REPO=<scratch> ./check {P} "
                    "quick -> see result.json"]}
    json.dump(meta, open(os.path.join(dst, "meta.json"), "w"), indent=1)
    print("took", key, "as", ident)
