"""Entry point: run_check.py <PROPERTY> quick|thorough | --replay FILE"""
import importlib
import os
import sys
import traceback

sys.dont_write_bytecode = True
sys.path.insert(0, os.path.dirname(os.path.abspath(__file__)))
from simkit.core import HarnessError  # noqa: E402


def main(argv):
    if len(argv) < 3:
        print(__doc__, file=sys.stderr)
        return 2
    prop = argv[1].upper()
    try:
        mod = importlib.import_module("checks." + prop.lower())
    except ModuleNotFoundError as e:
        print(f"no check for {prop}: {e}", file=sys.stderr)
        return 2
    try:
        if argv[2] == "--replay":
            return mod.replay(argv[3])
        if argv[2] == "--digests":
            # determinism self-test support: print "<index> <digest>" for run indices lo..hi-1 (optionally reversed)
            from simkit import core
            lo, hi = int(argv[3]), int(argv[4])
            idx = list(range(lo, hi))
            if len(argv) > 5 and argv[5] == "rev":
                idx.reverse()
            out = {}
            for i in idx:
                out[i] = mod.digest_for_index(core.base_seed(), i)
            for i in sorted(out):
                print(i, out[i])
            return 0
        tier = argv[2]
        if tier not in ("quick", "thorough"):
            print("tier must be quick or thorough", file=sys.stderr)
            return 2
        return mod.run(tier)
    except HarnessError as e:
        print(f"HARNESS-ERROR {prop}: {e}", file=sys.stderr)
        return 2
    except BaseException:
        traceback.print_exc()
        print(f"HARNESS-ERROR {prop}: unexpected exception in the harness (not a verdict)", file=sys.stderr)
        return 2


if __name__ == "__main__":
    code = main(sys.argv)
    sys.stdout.flush()
    sys.stderr.flush()
    os._exit(code)
