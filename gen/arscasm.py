"""arscasm -- a small resources.arsc writer (workload generator for C35; never an oracle).

table = {"package": str, "id": int, "utf8": bool,
         "types": [{"name": "string", "configs": [b"\\0\\0" | b"de", ...],
                    "entries": [None | {"key": str, "value": str | ["int", n] | ["ref", n] | ["bool", b]
                                        | ["bag", parent, [[name_ref, value], ...]]}]}]}
"""
from __future__ import annotations

import struct

from .axmlasm import _pool

RES_TABLE, RES_TABLE_PACKAGE, RES_TABLE_TYPE, RES_TABLE_TYPE_SPEC = 0x0002, 0x0200, 0x0201, 0x0202
NO_ENTRY = 0xFFFFFFFF


def assemble(table) -> bytes:
    values, vidx = [], {}

    def vid(s):
        if s not in vidx:
            vidx[s] = len(values)
            values.append(s)
        return vidx[s]

    keys, kidx = [], {}

    def kid(s):
        if s not in kidx:
            kidx[s] = len(keys)
            keys.append(s)
        return kidx[s]

    def res_value(v):
        if isinstance(v, str):
            return struct.pack("<HBBI", 8, 0, 0x03, vid(v))
        if v[0] == "int":
            return struct.pack("<HBBI", 8, 0, 0x10, v[1] & 0xFFFFFFFF)
        if v[0] == "bool":
            return struct.pack("<HBBI", 8, 0, 0x12, 0xFFFFFFFF if v[1] else 0)
        return struct.pack("<HBBI", 8, 0, 0x01, v[1] & 0xFFFFFFFF)

    type_names = [t["name"] for t in table["types"]]
    body = bytearray()
    for ti, t in enumerate(table["types"]):
        n = len(t["entries"])
        body += struct.pack("<HHIBBHI", RES_TABLE_TYPE_SPEC, 16, 16 + 4 * n, ti + 1, 0, 0, n) + b"\x00\x00\x00\x00" * n
        for cfg in t.get("configs") or [b"\x00\x00"]:
            offs, data = [], bytearray()
            for e in t["entries"]:
                if e is None:
                    offs.append(NO_ENTRY)
                    continue
                offs.append(len(data))
                v = e["value"]
                if isinstance(v, list) and v[0] == "bag":
                    data += struct.pack("<HHIII", 16, 1, kid(e["key"]), v[1] & 0xFFFFFFFF, len(v[2]))
                    for name_ref, val in v[2]:
                        data += struct.pack("<I", name_ref & 0xFFFFFFFF) + res_value(val)
                else:
                    data += struct.pack("<HHI", 8, 0, kid(e["key"])) + res_value(v)
            config = struct.pack("<II", 64, 0) + (bytes(cfg) + b"\x00\x00")[:4] + b"\x00" * 52
            hs = 20 + len(config)
            body += struct.pack("<HHIBBHII", RES_TABLE_TYPE, hs, hs + 4 * n + len(data), ti + 1, 0, 0, n, hs + 4 * n) + config
            body += b"".join(struct.pack("<I", o) for o in offs) + bytes(data)
    utf8 = bool(table.get("utf8"))
    type_pool = _pool(type_names, utf8)
    key_pool = _pool(keys or [""], utf8)
    name = table["package"].encode("utf-16-le")[:254]
    name += b"\x00" * (256 - len(name))
    hs = 288
    pkg = struct.pack("<HHII", RES_TABLE_PACKAGE, hs, hs + len(type_pool) + len(key_pool) + len(body), table.get("id", 0x7F)) + name + \
        struct.pack("<IIIII", hs, len(type_names), hs + len(type_pool), len(keys), 0) + type_pool + key_pool + bytes(body)
    value_pool = _pool(values or [""], utf8)
    return struct.pack("<HHII", RES_TABLE, 12, 12 + len(value_pool) + len(pkg), 1) + value_pool + pkg


# --------------------------------------------------------------------------
# seeded tables; strings may name other string resources (aliases), also in chains and cycles
# --------------------------------------------------------------------------

def random_table(r, alias_prefix="@string/"):
    n = r.choice([1, 2, 3, 5, 8])
    names = ["s%d" % i for i in range(n)]
    entries = []
    for i, nm in enumerate(names):
        k = r.random()
        if k < 0.45:
            v = r.choice(["text", "", "Hello " + nm, "a" * 200])
        elif k < 0.85:
            # an alias: the text is the NAME of a string resource (this one, an earlier or a later one, or none that exists);
            # androguard's lookup drops one more character than the prefix has, hence the padding variants
            tgt = r.choice(names + ["missing"])
            v = alias_prefix + r.choice(["", "x", "/"]) + tgt
        elif k < 0.93:
            v = ["ref", 0x7F010000 + r.randrange(n)]
        else:
            v = ["int", r.randrange(1 << 32)]
        entries.append({"key": nm, "value": v} if r.random() < 0.95 else None)
    types = [{"name": "attr", "entries": [{"key": "a0", "value": ["int", 1]}]},
             {"name": "string", "entries": entries, "configs": r.choice([[b"\x00\x00"], [b"\x00\x00", b"de"], [b"fr"]])}]
    if r.random() < 0.3:
        types.append({"name": "style", "entries": [{"key": "st", "value": ["bag", 0, [[0x01010000 + i, ["int", i]] for i in range(r.randint(0, 4))]]}]})
    return {"package": r.choice(["com.example.app", "a", "android"]), "id": 0x7F, "utf8": r.random() < 0.5, "types": types}
