"""axmlasm -- a small Android binary-XML writer (workload generator for C35; never an oracle).

doc = {"namespaces": [[prefix, uri], ...], "root": element, "utf8": bool, "resource_ids": [int, ...]}
element = {"name": str, "ns": uri|None, "attrs": [{"ns": uri|None, "name": str, "value": str | ["int", n] | ["bool", b] | ["ref", n]}],
           "children": [element | {"text": str}]}
"""
from __future__ import annotations

import struct

RES_STRING_POOL, RES_XML, RES_XML_RESOURCE_MAP = 0x0001, 0x0003, 0x0180
START_NS, END_NS, START_EL, END_EL, CDATA = 0x0100, 0x0101, 0x0102, 0x0103, 0x0104
NONE = 0xFFFFFFFF


def _pool(strings, utf8):
    offs, data = [], bytearray()
    for s in strings:
        offs.append(len(data))
        if utf8:
            raw = s.encode("utf-8", "surrogatepass")

            def ln(n):
                return bytes([n]) if n < 0x80 else bytes([0x80 | (n >> 8), n & 0xFF])
            data += ln(min(len(s), 0x7FFF)) + ln(min(len(raw), 0x7FFF)) + raw + b"\x00"
        else:
            raw = s.encode("utf-16-le", "surrogatepass")
            n = len(raw) // 2
            if n < 0x8000:
                data += struct.pack("<H", n)
            else:
                data += struct.pack("<HH", 0x8000 | (n >> 16), n & 0xFFFF)
            data += raw + b"\x00\x00"
    while len(data) % 4:
        data.append(0)
    header_size = 0x1C
    strings_start = header_size + 4 * len(strings)
    size = strings_start + len(data)
    out = struct.pack("<HHIIIIII", RES_STRING_POOL, header_size, size, len(strings), 0, 0x100 if utf8 else 0, strings_start, 0)
    out += b"".join(struct.pack("<I", o) for o in offs) + bytes(data)
    return out


def assemble(doc) -> bytes:
    strings = []
    idx = {}

    def sid(s):
        if s is None:
            return NONE
        if s not in idx:
            idx[s] = len(strings)
            strings.append(s)
        return idx[s]

    # attribute names first (so that the resource map can line up with them), then everything else
    def walk_names(e):
        for a in e.get("attrs", []):
            sid(a["name"])
        for c in e.get("children", []):
            if "name" in c:
                walk_names(c)
    walk_names(doc["root"])
    body = bytearray()
    line = [1]

    def node(kind, payload):
        # payload starts with line number and comment index, which belong to the 0x10-byte node header
        nonlocal body
        body += struct.pack("<HHI", kind, 0x10, 8 + len(payload)) + payload

    def emit_ns(kind, prefix, uri):
        node(kind, struct.pack("<IIII", line[0], NONE, sid(prefix), sid(uri)))

    def emit_el(e):
        line[0] += 1
        attrs = e.get("attrs", [])
        payload = struct.pack("<IIIIHHHHHH", line[0], NONE, sid(e.get("ns")), sid(e["name"]), 0x14, 0x14, len(attrs), 0, 0, 0)
        for a in attrs:
            v = a["value"]
            if isinstance(v, str):
                raw, ty, data = sid(v), 0x03, sid(v)
            elif v[0] == "int":
                raw, ty, data = NONE, 0x10, v[1] & 0xFFFFFFFF
            elif v[0] == "bool":
                raw, ty, data = NONE, 0x12, 0xFFFFFFFF if v[1] else 0
            else:
                raw, ty, data = NONE, 0x01, v[1] & 0xFFFFFFFF
            payload += struct.pack("<IIIHBBI", sid(a.get("ns")), sid(a["name"]), raw, 8, 0, ty, data)
        node(START_EL, payload)
        for c in e.get("children", []):
            if "name" in c:
                emit_el(c)
            else:
                node(CDATA, struct.pack("<IIIHBBI", line[0], NONE, sid(c["text"]), 8, 0, 0, 0))
        node(END_EL, struct.pack("<IIII", line[0], NONE, sid(e.get("ns")), sid(e["name"])))

    for prefix, uri in doc.get("namespaces", []):
        emit_ns(START_NS, prefix, uri)
    emit_el(doc["root"])
    for prefix, uri in reversed(doc.get("namespaces", [])):
        emit_ns(END_NS, prefix, uri)
    pool = _pool(strings, bool(doc.get("utf8")))
    ids = doc.get("resource_ids") or []
    resmap = struct.pack("<HHI", RES_XML_RESOURCE_MAP, 8, 8 + 4 * len(ids)) + b"".join(struct.pack("<I", i) for i in ids) if ids else b""
    total = 8 + len(pool) + len(resmap) + len(body)
    return struct.pack("<HHI", RES_XML, 8, total) + pool + resmap + bytes(body)


# --------------------------------------------------------------------------
# seeded documents with adversarial names
# --------------------------------------------------------------------------

ANDROID = "http://schemas.android.com/apk/res/android"
ODD = ["'", '"', "\\", "\x7f", "​", " ", "$", " ", "<", "&", ":", "\x01", "é", "-", "."]


def _name(r, bad):
    base = r.choice(["manifest", "application", "activity", "uses-permission", "meta-data", "name", "label", "versionCode", "a"])
    if not bad:
        return base
    k = r.random()
    if k < 0.3:      # a long run of valid characters, then one that is not
        return r.choice(["a", "ab", "x1", "a_b", "a.b-c"]) * r.randint(6, 40) + r.choice(ODD)
    if k < 0.5:
        return base + r.choice(ODD) + base
    if k < 0.65:
        return r.choice(ODD) + base
    if k < 0.8:
        return "a" * r.choice([255, 256, 1000, 5000])
    if k < 0.9:
        return ""
    return base + r.choice(ODD) * r.randint(2, 30)


def random_doc(r):
    bad = r.random() < 0.7
    nss = [["android", ANDROID]]
    if r.random() < 0.5:
        p = r.choice(["app", "tools", "an" + r.choice(ODD) + "roid", r.choice(ODD), "", "xml", "xmlns", "a" * 300]) if bad else "app"
        nss.append([p, r.choice(["http://schemas.android.com/apk/res-auto", ANDROID, "", "urn:x" + r.choice(ODD)])])
    if r.random() < 0.15:
        nss.append(list(nss[0]))

    def element(depth):
        e = {"name": _name(r, bad and r.random() < 0.4), "ns": None if r.random() < 0.85 else r.choice(nss)[1], "attrs": [], "children": []}
        for _ in range(r.choice([0, 1, 1, 2, 3, 6])):
            v = r.random()
            val = ("v" + r.choice(ODD) * r.randint(0, 3)) if v < 0.5 else (["int", r.randrange(1 << 32)] if v < 0.7 else
                                                                          (["bool", r.random() < 0.5] if v < 0.85 else ["ref", 0x7F000000 + r.randrange(100)]))
            e["attrs"].append({"ns": r.choice([None, ANDROID, nss[-1][1]]), "name": _name(r, bad and r.random() < 0.5), "value": val})
        if bad and r.random() < 0.06:
            # one tag with a very large number of attributes, nameless or sharing one name
            n = r.choice([300, 1200, 2500, 6000])
            nm = r.choice(["", "", "a", "x" + r.choice(ODD)])
            e["attrs"] += [{"ns": r.choice([None, ANDROID]), "name": nm if r.random() < 0.9 else "n%d" % i, "value": ["int", i]}
                           for i in range(n)]
        if depth < 3:
            for _ in range(r.choice([0, 0, 1, 2])):
                e["children"].append(element(depth + 1) if r.random() < 0.85 else {"text": "t" + r.choice(ODD)})
        return e
    root = element(0)
    if r.random() < 0.7:
        root["name"] = "manifest"
        root["attrs"].append({"ns": None, "name": "package", "value": "com.example" + (r.choice(ODD) if bad and r.random() < 0.3 else "")})
    return {"namespaces": nss, "root": root, "utf8": r.random() < 0.4,
            "resource_ids": [0x0101021B, 0x0101021C, 0x01010003][:r.randint(0, 3)]}


def manifest_doc(r, string_names=None):
    """an AndroidManifest-like document: package, version attributes and a uses-sdk element whose numbers are boundary values;
    with string_names (names of string resources of the archive's resource table) also <permission> elements whose
    attributes NAME a string resource in plain text ("@string/..."), which APK() resolves through resources.arsc"""
    big = [0, 1, 19, 33, 34, 1000, 0x7FFF, 0x10000, 0x7FFFFFFF, 0xFFFFFFFF, 0x80000000, r.randrange(1 << 32)]
    def num():
        return ["int", r.choice(big)] if r.random() < 0.7 else str(r.choice(big))
    root = {"name": "manifest", "ns": None, "attrs": [
        {"ns": None, "name": "package", "value": r.choice(["com.example.app", "a", "", "com..x", "c" * 300])},
        {"ns": ANDROID, "name": "versionCode", "value": num()},
        {"ns": ANDROID, "name": "versionName", "value": r.choice(["1.0", "", "v" * 100])}], "children": []}
    sdk = {"name": "uses-sdk", "ns": None, "attrs": [], "children": []}
    for n in ("minSdkVersion", "targetSdkVersion", "maxSdkVersion"):
        if r.random() < 0.75:
            sdk["attrs"].append({"ns": ANDROID, "name": n, "value": num()})
    root["children"].append(sdk)
    for _ in range(r.randint(0, 3)):
        root["children"].append({"name": "uses-permission", "ns": None, "children": [],
                                 "attrs": [{"ns": ANDROID, "name": "name", "value": r.choice(["android.permission.INTERNET", "x", "", "a" * 200])},
                                           {"ns": ANDROID, "name": "maxSdkVersion", "value": num()}]})
    if string_names:
        for _ in range(r.randint(1, 3)):
            def alias():
                k = r.random()
                if k < 0.75:
                    return "@string/" + r.choice(["", "x", "/"]) + r.choice(list(string_names) + ["missing"])
                return r.choice(["plain", "", "@string/", "@string", ["ref", 0x7F020000 + r.randrange(4)]])
            root["children"].append({"name": "permission", "ns": None, "children": [], "attrs": [
                {"ns": ANDROID, "name": n, "value": alias()}
                for n in ("name", "label", "description", "permissionGroup", "protectionLevel") if r.random() < 0.8]})
    app = {"name": "application", "ns": None, "attrs": [{"ns": ANDROID, "name": "label", "value": r.choice(["app", ["ref", 0x7F010000]])}],
           "children": [{"name": "activity", "ns": None, "attrs": [{"ns": ANDROID, "name": "name", "value": ".Main"}], "children": []}]}
    root["children"].append(app)
    # attribute names are given resource ids in this order (as aapt does), so that they are recognised by id as well
    return {"namespaces": [["android", ANDROID]], "root": root, "utf8": r.random() < 0.5,
            "resource_ids": []}
