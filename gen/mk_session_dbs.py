"""One-off: session databases as written by the unchanged /repo code (n sequential sessions), committed under corpus/db/.
A database that an *older version* of the code wrote is part of the environment of a later version (schema, id values).
      PYTHONPATH=/verif /venv/bin/python gen/mk_session_dbs.py
"""
import os
import shutil
import sqlite3
import sys

sys.path.insert(0, "/repo")
from loguru import logger  # noqa: E402
logger.remove()
import androguard.session as S  # noqa: E402

OUT = os.path.join(os.path.dirname(os.path.dirname(os.path.abspath(__file__))), "corpus", "db")
os.makedirs(OUT, exist_ok=True)
for n in range(1, 6):
    tmp = "/var/tmp/verif-mkdb-%d" % n
    shutil.rmtree(tmp, ignore_errors=True)
    os.makedirs(tmp)
    path = os.path.join(tmp, "androguard.db")
    for _ in range(n):
        s = S.Session(db_url="sqlite:///" + path)
        if n >= 3:
            s.insert_event("call", "callee", "params", "ret")      # the larger ones also carry the pentest table
        s.db.close()
    c = sqlite3.connect(path)
    c.execute("PRAGMA wal_checkpoint(TRUNCATE)")
    print(n, [r[0] for r in c.execute("select id from session order by id")])
    c.close()
    shutil.copy(path, os.path.join(OUT, "sessions-%d.db" % n))
    shutil.rmtree(tmp, ignore_errors=True)
