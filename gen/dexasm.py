"""dexasm -- a small DEX assembler (workload generator, DESIGN.md 3.7 / Appendix B).

Model (JSON-friendly):

  model   = {"classes": [cls...], "strings_extra": [str...]}
  cls     = {"desc": "Lp/A;", "access": int, "super": desc|None, "interfaces": [desc], "source": str|None,
             "sfields": [fld], "ifields": [fld], "dmethods": [mth], "vmethods": [mth]}
  fld     = {"name": str, "type": desc, "access": int}
  mth     = {"name": str, "ret": desc, "params": [desc], "access": int, "code": code|None}
  code    = {"regs": int, "insns": [insn...], "tries": [[start_label, end_label, [[type, label]...], catchall_label|None]]}
  mref    = [class_desc, name, ret_desc, [param_desc...]]         fref = [class_desc, name, type_desc]

Instructions (lists; registers are ints, labels are strings):
  ["label", L] ["nop"] ["move", vA, vB] ["move-object", vA, vB] ["move-result", kind('', 'wide', 'object'), vAA]
  ["move-exception", vAA] ["return-void"] ["return", kind('', 'wide', 'object'), vAA]
  ["const4", vA, lit] ["const16", vAA, lit] ["const", vAA, lit32]
  ["const-string", vAA, s] ["const-string/jumbo", vAA, s] ["const-class", vAA, type] ["check-cast", vAA, type]
  ["instance-of", vA, vB, type] ["new-instance", vAA, type] ["new-array", vA, vB, type] ["array-length", vA, vB]
  ["throw", vAA] ["goto", L] ["goto16", L] ["packed-switch", vAA, first_key, [L...]] ["sparse-switch", vAA, [[key, L]...]]
  ["if", cc(eq ne lt ge gt le), vA, vB, L] ["ifz", cc, vAA, L]
  ["aget", variant, vAA, vBB, vCC] ["aput", variant, vAA, vBB, vCC]
  ["iget"|"iput", variant('', wide, object, boolean, byte, char, short), vA, vB, fref]
  ["sget"|"sput", variant, vAA, fref]
  ["invoke", kind(virtual super direct static interface), [regs<=5], mref] ["invoke/range", kind, first, count, mref]
  ["binop", op, vAA, vBB, vCC] ["binop2", op, vA, vB] ["binoplit8", op, vAA, vBB, lit8] ["binoplit16", op, vA, vB, lit16]
  ["neg-int", vA, vB]

The assembler does not validate identifiers: adversarial names are allowed everywhere.
assemble() returns (bytes, layout); layout["methods"][(cls, name, proto)] = {"code_off": int, "offsets": [byte offset per
non-label instruction], "units": int}.
"""
from __future__ import annotations

import hashlib
import struct
import zlib

NO_INDEX = 0xFFFFFFFF

ACC_PUBLIC, ACC_PRIVATE, ACC_PROTECTED, ACC_STATIC, ACC_FINAL = 1, 2, 4, 8, 0x10
ACC_INTERFACE, ACC_ABSTRACT, ACC_NATIVE, ACC_CONSTRUCTOR = 0x200, 0x400, 0x100, 0x10000

IF_CC = {"eq": 0, "ne": 1, "lt": 2, "ge": 3, "gt": 4, "le": 5}
VARIANT = {"": 0, "wide": 1, "object": 2, "boolean": 3, "byte": 4, "char": 5, "short": 6}
INVOKE = {"virtual": 0x6E, "super": 0x6F, "direct": 0x70, "static": 0x71, "interface": 0x72}
BINOP = {"add": 0, "sub": 1, "mul": 2, "div": 3, "rem": 4, "and": 5, "or": 6, "xor": 7, "shl": 8, "shr": 9, "ushr": 10}
BINOP_LIT = {"add": 0, "rsub": 1, "mul": 2, "div": 3, "rem": 4, "and": 5, "or": 6, "xor": 7}


class AsmError(Exception):
    pass


def uleb128(v: int) -> bytes:
    out = bytearray()
    while True:
        b = v & 0x7F
        v >>= 7
        if v:
            out.append(b | 0x80)
        else:
            out.append(b)
            return bytes(out)


def sleb128(v: int) -> bytes:
    out = bytearray()
    while True:
        b = v & 0x7F
        v >>= 7
        if (v == 0 and not (b & 0x40)) or (v == -1 and (b & 0x40)):
            out.append(b)
            return bytes(out)
        out.append(b | 0x80)


def mutf8(s: str) -> tuple[bytes, int]:
    """(MUTF-8 bytes, number of UTF-16 code units)"""
    out = bytearray()
    units = 0
    for ch in s:
        cp = ord(ch)
        if cp >= 0x10000:
            cp -= 0x10000
            pair = (0xD800 + (cp >> 10), 0xDC00 + (cp & 0x3FF))
        else:
            pair = (cp,)
        for c in pair:
            units += 1
            if c == 0:
                out += b"\xc0\x80"
            elif c < 0x80:
                out.append(c)
            elif c < 0x800:
                out += bytes((0xC0 | (c >> 6), 0x80 | (c & 0x3F)))
            else:
                out += bytes((0xE0 | (c >> 12), 0x80 | ((c >> 6) & 0x3F), 0x80 | (c & 0x3F)))
    return bytes(out), units


def utf16_key(s: str):
    return s.encode("utf-16-be", "surrogatepass")


def shorty_char(desc: str) -> str:
    return "L" if desc[0] in "L[" else desc[0]


def words(desc: str) -> int:
    return 2 if desc in ("J", "D") else 1


def proto_key(ret, params):
    return (ret, tuple(params))


def proto_desc(ret, params):
    return "(" + "".join(params) + ")" + ret


# --------------------------------------------------------------------------
# pools
# --------------------------------------------------------------------------

class Pools:
    def __init__(self, model):
        strings, types, protos, fields, methods = set(), set(), set(), set(), set()

        def add_type(t):
            types.add(t)
            strings.add(t)

        def add_proto(ret, params):
            protos.add(proto_key(ret, params))
            add_type(ret)
            for p in params:
                add_type(p)
            strings.add(shorty_char(ret) + "".join(shorty_char(p) for p in params))

        def add_field(f):
            fields.add(tuple(f))
            add_type(f[0])
            add_type(f[2])
            strings.add(f[1])

        def add_method(m):
            methods.add((m[0], m[1], proto_key(m[2], m[3])))
            add_type(m[0])
            strings.add(m[1])
            add_proto(m[2], m[3])

        for s in model.get("strings_extra", []):
            strings.add(s)
        for c in model["classes"]:
            add_type(c["desc"])
            if c.get("super"):
                add_type(c["super"])
            for i in c.get("interfaces", []):
                add_type(i)
            if c.get("source"):
                strings.add(c["source"])
            for f in c.get("sfields", []) + c.get("ifields", []):
                add_field([c["desc"], f["name"], f["type"]])
            for m in c.get("dmethods", []) + c.get("vmethods", []):
                add_method([c["desc"], m["name"], m["ret"], m["params"]])
                code = m.get("code")
                if not code:
                    continue
                for ins in code["insns"]:
                    op = ins[0]
                    if op in ("const-string", "const-string/jumbo"):
                        strings.add(ins[2])
                    elif op in ("const-class", "check-cast", "new-instance"):
                        add_type(ins[2])
                    elif op in ("instance-of", "new-array"):
                        add_type(ins[3])
                    elif op in ("iget", "iput"):
                        add_field(ins[4])
                    elif op in ("sget", "sput"):
                        add_field(ins[3])
                    elif op == "invoke":
                        add_method(ins[3])
                    elif op == "invoke/range":
                        add_method(ins[4])
                for t in code.get("tries", []):
                    for ty, _ in t[2]:
                        add_type(ty)
        self.strings = sorted(strings, key=utf16_key)
        self.sidx = {s: i for i, s in enumerate(self.strings)}
        self.types = sorted(types, key=lambda t: self.sidx[t])
        self.tidx = {t: i for i, t in enumerate(self.types)}
        self.protos = sorted(protos, key=lambda p: (self.tidx[p[0]], [self.tidx[x] for x in p[1]]))
        self.pidx = {p: i for i, p in enumerate(self.protos)}
        self.fields = sorted(fields, key=lambda f: (self.tidx[f[0]], self.sidx[f[1]], self.tidx[f[2]]))
        self.fidx = {f: i for i, f in enumerate(self.fields)}
        self.methods = sorted(methods, key=lambda m: (self.tidx[m[0]], self.sidx[m[1]], self.pidx[m[2]]))
        self.midx = {m: i for i, m in enumerate(self.methods)}
        if len(self.types) > 65535 or len(self.protos) > 65535:
            raise AsmError("too many types/protos")

    def field(self, f):
        return self.fidx[tuple(f)]

    def method(self, m):
        return self.midx[(m[0], m[1], proto_key(m[2], m[3]))]


# --------------------------------------------------------------------------
# code
# --------------------------------------------------------------------------

def _size(ins) -> int:
    op = ins[0]
    if op == "label":
        return 0
    if op in ("nop", "move", "move-object", "move-result", "move-exception", "return-void", "return", "const4",
              "array-length", "throw", "goto", "binop2", "neg-int"):
        return 1
    if op in ("const16", "const-string", "const-class", "check-cast", "instance-of", "new-instance", "new-array",
              "goto16", "if", "ifz", "aget", "aput", "iget", "iput", "sget", "sput", "binop", "binoplit8", "binoplit16"):
        return 2
    if op in ("const", "const-string/jumbo", "packed-switch", "sparse-switch", "invoke", "invoke/range"):
        return 3
    raise AsmError(f"unknown instruction {ins!r}")


def _r4(v):
    if not 0 <= v < 16:
        raise AsmError(f"register v{v} does not fit 4 bits")
    return v


def _r8(v):
    if not 0 <= v < 256:
        raise AsmError(f"register v{v} does not fit 8 bits")
    return v


def _s(v, bits):
    lo, hi = -(1 << (bits - 1)), (1 << (bits - 1)) - 1
    if not lo <= v <= hi:
        raise AsmError(f"value {v} does not fit {bits} signed bits")
    return v & ((1 << bits) - 1)


def assemble_code(code, pools, is_static, params):
    """-> (code_item bytes without leading alignment, [unit offset per non-label insn], outs)"""
    insns = code["insns"]
    # pass 1: addresses
    addr = []
    labels = {}
    pc = 0
    for ins in insns:
        addr.append(pc)
        if ins[0] == "label":
            labels[ins[1]] = pc
        pc += _size(ins)
    body_units = pc
    # payloads after the body, 2-unit aligned
    payload_at = {}
    for i, ins in enumerate(insns):
        if ins[0] == "packed-switch":
            if pc % 2:
                pc += 1
            payload_at[i] = pc
            pc += 4 + 2 * len(ins[3])
        elif ins[0] == "sparse-switch":
            if pc % 2:
                pc += 1
            payload_at[i] = pc
            pc += 2 + 4 * len(ins[2])
    total_units = pc

    def rel(i, label):
        if label not in labels:
            raise AsmError(f"undefined label {label}")
        return labels[label] - addr[i]

    units = []
    outs = 0
    offsets = []
    for i, ins in enumerate(insns):
        op = ins[0]
        if op == "label":
            continue
        offsets.append(addr[i])
        assert len(units) == addr[i], (len(units), addr[i], ins)
        if op == "nop":
            units.append(0x0000)
        elif op in ("move", "move-object"):
            units.append((_r4(ins[2]) << 12) | (_r4(ins[1]) << 8) | (0x01 if op == "move" else 0x07))
        elif op == "move-result":
            units.append((_r8(ins[2]) << 8) | {"": 0x0A, "wide": 0x0B, "object": 0x0C}[ins[1]])
        elif op == "move-exception":
            units.append((_r8(ins[1]) << 8) | 0x0D)
        elif op == "return-void":
            units.append(0x0E)
        elif op == "return":
            units.append((_r8(ins[2]) << 8) | {"": 0x0F, "wide": 0x10, "object": 0x11}[ins[1]])
        elif op == "const4":
            units.append((_s(ins[2], 4) << 12) | (_r4(ins[1]) << 8) | 0x12)
        elif op == "const16":
            units += [(_r8(ins[1]) << 8) | 0x13, _s(ins[2], 16)]
        elif op == "const":
            v = _s(ins[2], 32)
            units += [(_r8(ins[1]) << 8) | 0x14, v & 0xFFFF, v >> 16]
        elif op == "const-string":
            idx = pools.sidx[ins[2]]
            if idx > 0xFFFF:
                raise AsmError("const-string index needs jumbo")
            units += [(_r8(ins[1]) << 8) | 0x1A, idx]
        elif op == "const-string/jumbo":
            idx = pools.sidx[ins[2]]
            units += [(_r8(ins[1]) << 8) | 0x1B, idx & 0xFFFF, idx >> 16]
        elif op == "const-class":
            units += [(_r8(ins[1]) << 8) | 0x1C, pools.tidx[ins[2]]]
        elif op == "check-cast":
            units += [(_r8(ins[1]) << 8) | 0x1F, pools.tidx[ins[2]]]
        elif op == "instance-of":
            units += [(_r4(ins[2]) << 12) | (_r4(ins[1]) << 8) | 0x20, pools.tidx[ins[3]]]
        elif op == "array-length":
            units.append((_r4(ins[2]) << 12) | (_r4(ins[1]) << 8) | 0x21)
        elif op == "new-instance":
            units += [(_r8(ins[1]) << 8) | 0x22, pools.tidx[ins[2]]]
        elif op == "new-array":
            units += [(_r4(ins[2]) << 12) | (_r4(ins[1]) << 8) | 0x23, pools.tidx[ins[3]]]
        elif op == "throw":
            units.append((_r8(ins[1]) << 8) | 0x27)
        elif op == "goto":
            units.append((_s(rel(i, ins[1]), 8) << 8) | 0x28)
            if rel(i, ins[1]) == 0:
                raise AsmError("goto with zero offset")
        elif op == "goto16":
            units += [0x29, _s(rel(i, ins[1]), 16)]
        elif op == "packed-switch":
            off = payload_at[i] - addr[i]
            units += [(_r8(ins[1]) << 8) | 0x2B, off & 0xFFFF, (off >> 16) & 0xFFFF]
        elif op == "sparse-switch":
            off = payload_at[i] - addr[i]
            units += [(_r8(ins[1]) << 8) | 0x2C, off & 0xFFFF, (off >> 16) & 0xFFFF]
        elif op == "if":
            units += [(_r4(ins[3]) << 12) | (_r4(ins[2]) << 8) | (0x32 + IF_CC[ins[1]]), _s(rel(i, ins[4]), 16)]
        elif op == "ifz":
            units += [(_r8(ins[2]) << 8) | (0x38 + IF_CC[ins[1]]), _s(rel(i, ins[3]), 16)]
        elif op in ("aget", "aput"):
            base = 0x44 if op == "aget" else 0x4B
            units += [(_r8(ins[2]) << 8) | (base + VARIANT[ins[1]]), (_r8(ins[4]) << 8) | _r8(ins[3])]
        elif op in ("iget", "iput"):
            base = 0x52 if op == "iget" else 0x59
            units += [(_r4(ins[3]) << 12) | (_r4(ins[2]) << 8) | (base + VARIANT[ins[1]]), pools.field(ins[4])]
        elif op in ("sget", "sput"):
            base = 0x60 if op == "sget" else 0x67
            units += [(_r8(ins[2]) << 8) | (base + VARIANT[ins[1]]), pools.field(ins[3])]
        elif op == "invoke":
            regs = list(ins[2])
            if len(regs) > 5:
                raise AsmError("invoke with more than 5 registers")
            outs = max(outs, len(regs))
            r = [_r4(x) for x in regs] + [0] * (5 - len(regs))
            units += [(len(regs) << 12) | (r[4] << 8) | INVOKE[ins[1]], pools.method(ins[3]),
                      (r[3] << 12) | (r[2] << 8) | (r[1] << 4) | r[0]]
        elif op == "invoke/range":
            outs = max(outs, ins[3])
            units += [(_r8(ins[3]) << 8) | (INVOKE[ins[1]] + 6), pools.method(ins[4]), ins[2] & 0xFFFF]
        elif op == "binop":
            units += [(_r8(ins[2]) << 8) | (0x90 + BINOP[ins[1]]), (_r8(ins[4]) << 8) | _r8(ins[3])]
        elif op == "binop2":
            units.append((_r4(ins[3]) << 12) | (_r4(ins[2]) << 8) | (0xB0 + BINOP[ins[1]]))
        elif op == "binoplit8":
            units += [(_r8(ins[2]) << 8) | (0xD8 + BINOP_LIT[ins[1]]), (_s(ins[4], 8) << 8) | _r8(ins[3])]
        elif op == "binoplit16":
            units += [(_r4(ins[3]) << 12) | (_r4(ins[2]) << 8) | (0xD0 + BINOP_LIT[ins[1]]), _s(ins[4], 16)]
        elif op == "neg-int":
            units.append((_r4(ins[2]) << 12) | (_r4(ins[1]) << 8) | 0x7B)
        else:
            raise AsmError(f"unknown instruction {ins!r}")
    assert len(units) == body_units
    for i, ins in enumerate(insns):
        if i in payload_at:
            while len(units) < payload_at[i]:
                units.append(0)
            if ins[0] == "packed-switch":
                units += [0x0100, len(ins[3]), ins[2] & 0xFFFF, (ins[2] >> 16) & 0xFFFF]
                for lab in ins[3]:
                    t = rel(i, lab) & 0xFFFFFFFF
                    units += [t & 0xFFFF, t >> 16]
            else:
                pairs = sorted(ins[2], key=lambda kv: kv[0])
                units += [0x0200, len(pairs)]
                for k, _ in pairs:
                    k &= 0xFFFFFFFF
                    units += [k & 0xFFFF, k >> 16]
                for _, lab in pairs:
                    t = rel(i, lab) & 0xFFFFFFFF
                    units += [t & 0xFFFF, t >> 16]
    assert len(units) == total_units
    ins_words = (0 if is_static else 1) + sum(words(p) for p in params)
    regs = max(code["regs"], ins_words)
    tries = code.get("tries", [])
    out = bytearray(struct.pack("<HHHHII", regs, ins_words, outs, len(tries), 0, len(units)))
    out += struct.pack("<%dH" % len(units), *units)
    if tries:
        if len(units) % 2:
            out += b"\x00\x00"
        # handlers
        hl = bytearray(uleb128(len(tries)))
        hoffs = []
        for t in tries:
            hoffs.append(len(hl))
            pairs, catchall = t[2], t[3]
            n = len(pairs)
            hl += sleb128(-n if catchall is not None else n)
            for ty, lab in pairs:
                hl += uleb128(pools.tidx[ty]) + uleb128(labels[lab])
            if catchall is not None:
                hl += uleb128(labels[catchall])
        for t, ho in zip(tries, hoffs):
            start, end = labels[t[0]], labels[t[1]]
            out += struct.pack("<IHH", start, end - start, ho)
        out += hl
    return bytes(out), offsets, len(units)


# --------------------------------------------------------------------------
# file
# --------------------------------------------------------------------------

def _align(buf: bytearray, n: int):
    while len(buf) % n:
        buf.append(0)


def assemble(model, version: bytes = b"035") -> tuple[bytes, dict]:
    pools = Pools(model)
    classes = model["classes"]
    n_s, n_t, n_p = len(pools.strings), len(pools.types), len(pools.protos)
    n_f, n_m, n_c = len(pools.fields), len(pools.methods), len(classes)
    off_string_ids = 0x70
    off_type_ids = off_string_ids + 4 * n_s
    off_proto_ids = off_type_ids + 4 * n_t
    off_field_ids = off_proto_ids + 12 * n_p
    off_method_ids = off_field_ids + 8 * n_f
    off_class_defs = off_method_ids + 8 * n_m
    data_off = off_class_defs + 32 * n_c
    data = bytearray()

    def here():
        return data_off + len(data)

    # type lists (deduplicated)
    tlists = {}
    tl_order = []

    def want_tlist(descs):
        key = tuple(descs)
        if key and key not in tlists:
            tlists[key] = None
            tl_order.append(key)

    for p in pools.protos:
        want_tlist(p[1])
    for c in classes:
        want_tlist(c.get("interfaces", []))
    off_tlists = here() if tl_order else 0
    for key in tl_order:
        _align(data, 4)
        tlists[key] = here()
        data += struct.pack("<I", len(key))
        for d in key:
            data += struct.pack("<H", pools.tidx[d])
    if tl_order:
        _align(data, 4)
        off_tlists = tlists[tl_order[0]]

    # code items
    layout = {"methods": {}, "pools": pools}
    code_offs = {}
    n_code = 0
    first_code = 0
    for c in classes:
        for kind in ("dmethods", "vmethods"):
            for m in c.get(kind, []):
                if not m.get("code"):
                    continue
                _align(data, 4)
                off = here()
                if not n_code:
                    first_code = off
                n_code += 1
                raw, offsets, units = assemble_code(m["code"], pools, bool(m["access"] & ACC_STATIC), m["params"])
                data += raw
                key = (c["desc"], m["name"], proto_desc(m["ret"], m["params"]))
                code_offs[key] = off
                layout["methods"][key] = {"code_off": off, "offsets": [2 * o for o in offsets], "units": units}
    # class data items
    cdata_offs = {}
    n_cdata = 0
    first_cdata = 0
    for c in classes:
        sf, inf = c.get("sfields", []), c.get("ifields", [])
        dm, vm = c.get("dmethods", []), c.get("vmethods", [])
        if not (sf or inf or dm or vm):
            cdata_offs[c["desc"]] = 0
            continue
        off = here()
        if not n_cdata:
            first_cdata = off
        n_cdata += 1
        cdata_offs[c["desc"]] = off
        data += uleb128(len(sf)) + uleb128(len(inf)) + uleb128(len(dm)) + uleb128(len(vm))
        for group in (sf, inf):
            prev = 0
            for f in sorted(group, key=lambda f: pools.field([c["desc"], f["name"], f["type"]])):
                idx = pools.field([c["desc"], f["name"], f["type"]])
                data += uleb128(idx - prev) + uleb128(f["access"])
                prev = idx
        for group in (dm, vm):
            prev = 0
            for m in sorted(group, key=lambda m: pools.method([c["desc"], m["name"], m["ret"], m["params"]])):
                idx = pools.method([c["desc"], m["name"], m["ret"], m["params"]])
                key = (c["desc"], m["name"], proto_desc(m["ret"], m["params"]))
                data += uleb128(idx - prev) + uleb128(m["access"]) + uleb128(code_offs.get(key, 0))
                prev = idx
    # string data
    sdata_offs = []
    first_sdata = here()
    for s in pools.strings:
        sdata_offs.append(here())
        raw, units = mutf8(s)
        data += uleb128(units) + raw + b"\x00"
    # map list
    _align(data, 4)
    map_off = here()
    entries = [(0x0000, 1, 0)]
    if n_s:
        entries.append((0x0001, n_s, off_string_ids))
    if n_t:
        entries.append((0x0002, n_t, off_type_ids))
    if n_p:
        entries.append((0x0003, n_p, off_proto_ids))
    if n_f:
        entries.append((0x0004, n_f, off_field_ids))
    if n_m:
        entries.append((0x0005, n_m, off_method_ids))
    if n_c:
        entries.append((0x0006, n_c, off_class_defs))
    if tl_order:
        entries.append((0x1001, len(tl_order), off_tlists))
    if n_code:
        entries.append((0x2001, n_code, first_code))
    if n_cdata:
        entries.append((0x2000, n_cdata, first_cdata))
    if n_s:
        entries.append((0x2002, n_s, first_sdata))
    entries.append((0x1000, 1, map_off))
    entries.sort(key=lambda e: e[2])
    data += struct.pack("<I", len(entries))
    for t, n, o in entries:
        data += struct.pack("<HHII", t, 0, n, o)
    # id sections
    ids = bytearray()
    for o in sdata_offs:
        ids += struct.pack("<I", o)
    for t in pools.types:
        ids += struct.pack("<I", pools.sidx[t])
    for ret, params in pools.protos:
        sh = shorty_char(ret) + "".join(shorty_char(p) for p in params)
        ids += struct.pack("<III", pools.sidx[sh], pools.tidx[ret], tlists[tuple(params)] if params else 0)
    for cls, name, ty in pools.fields:
        ids += struct.pack("<HHI", pools.tidx[cls], pools.tidx[ty], pools.sidx[name])
    for cls, name, pk in pools.methods:
        ids += struct.pack("<HHI", pools.tidx[cls], pools.pidx[pk], pools.sidx[name])
    for c in classes:
        ifs = tuple(c.get("interfaces", []))
        ids += struct.pack("<IIIIIIII", pools.tidx[c["desc"]], c["access"],
                           pools.tidx[c["super"]] if c.get("super") else NO_INDEX,
                           tlists[ifs] if ifs else 0,
                           pools.sidx[c["source"]] if c.get("source") else NO_INDEX,
                           0, cdata_offs[c["desc"]], 0)
    assert 0x70 + len(ids) == data_off
    file_size = data_off + len(data)
    header = bytearray(0x70)
    header[0:8] = b"dex\n" + version + b"\x00"
    struct.pack_into("<IIIIII", header, 32, file_size, 0x70, 0x12345678, 0, 0, map_off)
    struct.pack_into("<IIIIIIIIIIIIII", header, 56,
                     n_s, off_string_ids if n_s else 0, n_t, off_type_ids if n_t else 0,
                     n_p, off_proto_ids if n_p else 0, n_f, off_field_ids if n_f else 0,
                     n_m, off_method_ids if n_m else 0, n_c, off_class_defs if n_c else 0,
                     len(data), data_off)
    buf = bytearray(header) + ids + data
    return seal(buf), layout


def seal(buf) -> bytes:
    """Recompute SHA-1 signature and Adler-32 checksum of a DEX image."""
    buf = bytearray(buf)
    buf[12:32] = hashlib.sha1(bytes(buf[32:])).digest()
    buf[8:12] = struct.pack("<I", zlib.adler32(bytes(buf[12:])) & 0xFFFFFFFF)
    return bytes(buf)


def fix_adler(buf) -> bytes:
    buf = bytearray(buf)
    buf[8:12] = struct.pack("<I", zlib.adler32(bytes(buf[12:])) & 0xFFFFFFFF)
    return bytes(buf)


def split(model, assignment):
    """assignment: list of part numbers, one per class -> list of sub-models (same class dicts, so same code bytes)."""
    parts = {}
    for c, a in zip(model["classes"], assignment):
        parts.setdefault(a, []).append(c)
    return [{"classes": parts[k], "strings_extra": list(model.get("strings_extra", []))} for k in sorted(parts)]


# --------------------------------------------------------------------------
# self-check against androguard (generator validation; a mismatch is a harness error, never a violation)
# --------------------------------------------------------------------------

def selfcheck(model, raw, layout):
    from androguard.core import dex
    d = dex.DEX(raw)
    want_classes = [c["desc"] for c in model["classes"]]
    got_classes = [str(c.get_name()) for c in d.get_classes()]
    if want_classes != got_classes:
        raise AsmError(f"selfcheck: classes {got_classes} != {want_classes}")
    want = {}
    for c in model["classes"]:
        for kind in ("dmethods", "vmethods"):
            for m in c.get(kind, []):
                want[(c["desc"], m["name"], proto_desc(m["ret"], m["params"]))] = m
    got = {}
    for em in d.get_encoded_methods():
        got[(str(em.get_class_name()), str(em.get_name()), str(em.get_descriptor()).replace(" ", ""))] = em
    if set(want) != set(got):
        raise AsmError(f"selfcheck: methods differ: {sorted(set(want) ^ set(got))[:5]}")
    for key, m in want.items():
        em = got[key]
        if not m.get("code"):
            if em.get_code() is not None:
                raise AsmError(f"selfcheck: {key} unexpectedly has code")
            continue
        lay = layout["methods"][key]
        offs = []
        idx = 0
        for ins in em.get_instructions():
            offs.append(idx)
            idx += ins.get_length()
        body = [o for o in lay["offsets"]]
        if offs[:len(body)] != body:
            raise AsmError(f"selfcheck: {key} instruction offsets {offs[:12]} != {body[:12]}")
    want_f = {(c["desc"], f["name"], f["type"]) for c in model["classes"] for f in c.get("sfields", []) + c.get("ifields", [])}
    got_f = {(str(f.get_class_name()), str(f.get_name()), str(f.get_descriptor())) for f in d.get_encoded_fields()}
    if want_f != got_f:
        raise AsmError(f"selfcheck: fields differ: {sorted(want_f ^ got_f)[:5]}")
    return d
