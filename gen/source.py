"""Resolve a C22 source descriptor to DEX bytes (shared by the harness process and the child interpreters)."""
import zipfile


def load_raw(source):
    if source["kind"] == "file":
        if source.get("member"):
            with zipfile.ZipFile(source["path"]) as z:
                return z.read(source["member"])
        with open(source["path"], "rb") as f:
            return f.read()
    from gen import dexasm
    return dexasm.assemble(source["model"])[0]
