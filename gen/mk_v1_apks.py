"""One-off generator of v1-signed APKs with several signature blocks, signed attributes and mixed key types.

Run once by hand (uses OS randomness for keys and ECDSA nonces); the outputs are committed under corpus/apksig-gen/ so that
the checks themselves are deterministic.      /venv/bin/python gen/mk_v1_apks.py
"""
import base64
import datetime
import hashlib
import io
import os
import zipfile

from cryptography import x509
from cryptography.hazmat.primitives import hashes, serialization
from cryptography.hazmat.primitives.asymmetric import ec, rsa
from cryptography.hazmat.primitives.serialization import pkcs7
from cryptography.x509.oid import NameOID

HERE = os.path.dirname(os.path.dirname(os.path.abspath(__file__)))
BASE = os.path.join(HERE, "corpus", "apksig", "v1-only-with-signed-attrs.apk")
OUT = os.path.join(HERE, "corpus", "apksig-gen")


def mk_signer(kind, cn):
    key = ec.generate_private_key(ec.SECP256R1()) if kind == "ec" else rsa.generate_private_key(65537, 2048)
    name = x509.Name([x509.NameAttribute(NameOID.COMMON_NAME, cn), x509.NameAttribute(NameOID.ORGANIZATION_NAME, "Verif Corpus")])
    cert = (x509.CertificateBuilder().subject_name(name).issuer_name(name).public_key(key.public_key())
            .serial_number(x509.random_serial_number()).not_valid_before(datetime.datetime(2020, 1, 1))
            .not_valid_after(datetime.datetime(2040, 1, 1)).sign(key, hashes.SHA256()))
    return key, cert


def build(name, signers):
    """signers: [(block name, kind, hash, attrs: bool)]"""
    entries = []
    with zipfile.ZipFile(BASE) as z:
        for zi in z.infolist():
            if not zi.filename.startswith("META-INF/"):
                entries.append((zi.filename, z.read(zi.filename)))
    mf = "Manifest-Version: 1.0\r\nCreated-By: verif corpus\r\n\r\n"
    for fn, data in entries:
        mf += "Name: %s\r\nSHA-256-Digest: %s\r\n\r\n" % (fn, base64.b64encode(hashlib.sha256(data).digest()).decode())
    mf = mf.encode()
    sf = ("Signature-Version: 1.0\r\nCreated-By: verif corpus\r\nSHA-256-Digest-Manifest: %s\r\n\r\n"
          % base64.b64encode(hashlib.sha256(mf).digest()).decode()).encode()
    out = io.BytesIO()
    with zipfile.ZipFile(out, "w", zipfile.ZIP_DEFLATED) as z:
        z.writestr("META-INF/MANIFEST.MF", mf)
        for block, kind, h, attrs in signers:
            key, cert = mk_signer(kind, "signer-" + block.lower())
            opts = [pkcs7.PKCS7Options.DetachedSignature, pkcs7.PKCS7Options.Binary]
            opts.append(pkcs7.PKCS7Options.NoCapabilities if attrs else pkcs7.PKCS7Options.NoAttributes)
            der = pkcs7.PKCS7SignatureBuilder().set_data(sf).add_signer(cert, key, h()).sign(serialization.Encoding.DER, opts)
            z.writestr("META-INF/%s.SF" % block, sf)
            z.writestr("META-INF/%s.%s" % (block, "EC" if kind == "ec" else "RSA"), der)
        for fn, data in entries:
            z.writestr(fn, data)
    with open(os.path.join(OUT, name), "wb") as f:
        f.write(out.getvalue())
    print("wrote", name, len(out.getvalue()))


if __name__ == "__main__":
    os.makedirs(OUT, exist_ok=True)
    build("gen-two-ec-signers-signed-attrs.apk", [("ALPHA", "ec", hashes.SHA256, True), ("BETA", "ec", hashes.SHA256, True)])
    build("gen-rsa-attrs-plus-ec-noattrs.apk", [("ONE", "rsa", hashes.SHA256, True), ("TWO", "ec", hashes.SHA256, False)])
    build("gen-three-signers-mixed.apk", [("A", "ec", hashes.SHA512, True), ("B", "rsa", hashes.SHA512, True), ("C", "ec", hashes.SHA384, False)])
    build("gen-ec-sha512-signed-attrs.apk", [("CERT", "ec", hashes.SHA512, True)])
    build("gen-rsa-sha384-noattrs.apk", [("CERT", "rsa", hashes.SHA384, False)])
