"""One-off generator of v1-signed APKs with several signature blocks, signed attributes and mixed key types.

Run once by hand (uses OS randomness for keys and ECDSA nonces); the outputs are committed under corpus/apksig-gen/ so that
the checks themselves are deterministic.      /venv/bin/python gen/mk_v1_apks.py
"""
import base64
import datetime
import hashlib
import io
import os
import zipfile

from cryptography import x509
from cryptography.hazmat.primitives import hashes, serialization
from cryptography.hazmat.primitives.asymmetric import ec, rsa
from cryptography.hazmat.primitives.serialization import pkcs7
from cryptography.x509.oid import NameOID

HERE = os.path.dirname(os.path.dirname(os.path.abspath(__file__)))
BASE = os.path.join(HERE, "corpus", "apksig", "v1-only-with-signed-attrs.apk")
OUT = os.path.join(HERE, "corpus", "apksig-gen")


def mk_signer(kind, cn):
    key = ec.generate_private_key(ec.SECP256R1()) if kind == "ec" else rsa.generate_private_key(65537, 2048)
    name = x509.Name([x509.NameAttribute(NameOID.COMMON_NAME, cn), x509.NameAttribute(NameOID.ORGANIZATION_NAME, "Verif Corpus")])
    cert = (x509.CertificateBuilder().subject_name(name).issuer_name(name).public_key(key.public_key())
            .serial_number(x509.random_serial_number()).not_valid_before(datetime.datetime(2020, 1, 1))
            .not_valid_after(datetime.datetime(2040, 1, 1)).sign(key, hashes.SHA256()))
    return key, cert


def ed25519_block(sf, cn):
    """PKCS#7 SignedData with one Ed25519 signer over signed attributes (built by hand: the builder knows RSA/EC only)."""
    from asn1crypto import algos, cms, core as acore, x509 as ax509
    from cryptography.hazmat.primitives.asymmetric import ed25519
    key = ed25519.Ed25519PrivateKey.generate()
    name = x509.Name([x509.NameAttribute(NameOID.COMMON_NAME, cn), x509.NameAttribute(NameOID.ORGANIZATION_NAME, "Verif Corpus")])
    cert = (x509.CertificateBuilder().subject_name(name).issuer_name(name).public_key(key.public_key())
            .serial_number(x509.random_serial_number()).not_valid_before(datetime.datetime(2020, 1, 1))
            .not_valid_after(datetime.datetime(2040, 1, 1)).sign(key, None))
    acert = ax509.Certificate.load(cert.public_bytes(serialization.Encoding.DER))
    attrs = cms.CMSAttributes([
        cms.CMSAttribute({"type": "content_type", "values": ["data"]}),
        cms.CMSAttribute({"type": "message_digest", "values": [hashlib.sha512(sf).digest()]}),
    ])
    to_sign = b"\x31" + attrs.dump()[1:]
    sig = key.sign(to_sign)
    si = cms.SignerInfo({
        "version": "v1",
        "sid": cms.SignerIdentifier({"issuer_and_serial_number": cms.IssuerAndSerialNumber(
            {"issuer": acert.issuer, "serial_number": acert.serial_number})}),
        "digest_algorithm": algos.DigestAlgorithm({"algorithm": "sha512"}),
        "signed_attrs": attrs,
        "signature_algorithm": algos.SignedDigestAlgorithm({"algorithm": "ed25519"}),
        "signature": sig,
    })
    sd = cms.SignedData({
        "version": "v1",
        "digest_algorithms": [algos.DigestAlgorithm({"algorithm": "sha512"})],
        "encap_content_info": {"content_type": "data"},
        "certificates": [acert],
        "signer_infos": [si],
    })
    return cms.ContentInfo({"content_type": "signed_data", "content": sd}).dump()


def build(name, signers):
    """signers: [(block name, kind, hash, attrs: bool | "embedded")]   kind: ec | rsa | ed25519"""
    entries = []
    with zipfile.ZipFile(BASE) as z:
        for zi in z.infolist():
            if not zi.filename.startswith("META-INF/"):
                entries.append((zi.filename, z.read(zi.filename)))
    mf = "Manifest-Version: 1.0\r\nCreated-By: verif corpus\r\n\r\n"
    for fn, data in entries:
        mf += "Name: %s\r\nSHA-256-Digest: %s\r\n\r\n" % (fn, base64.b64encode(hashlib.sha256(data).digest()).decode())
    mf = mf.encode()
    sf = ("Signature-Version: 1.0\r\nCreated-By: verif corpus\r\nSHA-256-Digest-Manifest: %s\r\n\r\n"
          % base64.b64encode(hashlib.sha256(mf).digest()).decode()).encode()
    out = io.BytesIO()
    with zipfile.ZipFile(out, "w", zipfile.ZIP_DEFLATED) as z:
        z.writestr("META-INF/MANIFEST.MF", mf)
        for block, kind, h, attrs in signers:
            z.writestr("META-INF/%s.SF" % block, sf)
            if kind == "ed25519":
                z.writestr("META-INF/%s.EC" % block, ed25519_block(sf, "signer-" + block.lower()))
                continue
            key, cert = mk_signer(kind, "signer-" + block.lower())
            opts = [pkcs7.PKCS7Options.Binary]
            if attrs != "embedded":
                opts.append(pkcs7.PKCS7Options.DetachedSignature)      # "embedded": the block carries a copy of the .SF
            opts.append(pkcs7.PKCS7Options.NoCapabilities if attrs else pkcs7.PKCS7Options.NoAttributes)
            der = pkcs7.PKCS7SignatureBuilder().set_data(sf).add_signer(cert, key, h()).sign(serialization.Encoding.DER, opts)
            z.writestr("META-INF/%s.%s" % (block, "EC" if kind == "ec" else "RSA"), der)
        for fn, data in entries:
            z.writestr(fn, data)
    with open(os.path.join(OUT, name), "wb") as f:
        f.write(out.getvalue())
    print("wrote", name, len(out.getvalue()))


def _apk_with_block(name, block, der, sf_extra=b""):
    entries = []
    with zipfile.ZipFile(BASE) as z:
        for zi in z.infolist():
            if not zi.filename.startswith("META-INF/"):
                entries.append((zi.filename, z.read(zi.filename)))
    out = io.BytesIO()
    with zipfile.ZipFile(out, "w", zipfile.ZIP_DEFLATED) as z:
        z.writestr("META-INF/MANIFEST.MF", b"Manifest-Version: 1.0\r\n\r\n")
        z.writestr("META-INF/%s.SF" % block, SF_FIXED)
        z.writestr("META-INF/%s.EC" % block, der)
        for fn, data in entries:
            z.writestr(fn, data)
    with open(os.path.join(OUT, name), "wb") as f:
        f.write(out.getvalue())
    print("wrote", name)


SF_FIXED = b"Signature-Version: 1.0\r\nCreated-By: verif corpus\r\nSHA-256-Digest-Manifest: AAAA\r\n\r\n"


def build_forged():
    """Two certificates with the SAME issuer and serial number but different keys.
    gen-dup-issuer-serial-valid.apk : block signed by key 2, carrying certificate 2      (verifies)
    gen-forged-cert-swapped.apk     : the same signature, but the bag carries certificate 1 (must NOT be reported)"""
    from asn1crypto import cms, x509 as ax509
    name = x509.Name([x509.NameAttribute(NameOID.COMMON_NAME, "dup-issuer-serial"), x509.NameAttribute(NameOID.ORGANIZATION_NAME, "Verif Corpus")])
    certs, keys = [], []
    for _ in range(2):
        key = ec.generate_private_key(ec.SECP256R1())
        cert = (x509.CertificateBuilder().subject_name(name).issuer_name(name).public_key(key.public_key())
                .serial_number(0x1234567890ABCDEF).not_valid_before(datetime.datetime(2020, 1, 1))
                .not_valid_after(datetime.datetime(2040, 1, 1)).sign(key, hashes.SHA256()))
        certs.append(cert)
        keys.append(key)
    for attrs, tag in ((True, "attrs"), (False, "noattrs")):
        opts = [pkcs7.PKCS7Options.Binary, pkcs7.PKCS7Options.DetachedSignature,
                pkcs7.PKCS7Options.NoCapabilities if attrs else pkcs7.PKCS7Options.NoAttributes]
        der = pkcs7.PKCS7SignatureBuilder().set_data(SF_FIXED).add_signer(certs[1], keys[1], hashes.SHA256()).sign(serialization.Encoding.DER, opts)
        _apk_with_block("gen-dup-issuer-serial-valid-%s.apk" % tag, "CERT", der)
        ci = cms.ContentInfo.load(der)
        ci["content"]["certificates"] = cms.CertificateSet([cms.CertificateChoices(
            name="certificate", value=ax509.Certificate.load(certs[0].public_bytes(serialization.Encoding.DER)))])
        _apk_with_block("gen-forged-cert-swapped-%s.apk" % tag, "CERT", ci.dump())


def _icbrt_ceil(n):
    lo, hi = 0, 1 << ((n.bit_length() + 2) // 3 + 1)
    while lo < hi:
        mid = (lo + hi) // 2
        if mid ** 3 < n:
            lo = mid + 1
        else:
            hi = mid
    return lo


def build_bb06():
    """gen-forged-rsa-e3-bleichenbacher06.apk: an RSA certificate with public exponent 3 and a signature value made WITHOUT
    the private key: the cube root of  00 01 FF*8 00 DigestInfo(SHA-256(.SF)) || garbage.  A verifier that does not insist on
    the DigestInfo being right-aligned in the padded block accepts it; a correct one must not report the certificate."""
    from asn1crypto import algos, cms, x509 as ax509
    key = rsa.generate_private_key(3, 2048)
    name = x509.Name([x509.NameAttribute(NameOID.COMMON_NAME, "rsa-e3"), x509.NameAttribute(NameOID.ORGANIZATION_NAME, "Verif Corpus")])
    cert = (x509.CertificateBuilder().subject_name(name).issuer_name(name).public_key(key.public_key())
            .serial_number(x509.random_serial_number()).not_valid_before(datetime.datetime(2020, 1, 1))
            .not_valid_after(datetime.datetime(2040, 1, 1)).sign(key, hashes.SHA256()))
    acert = ax509.Certificate.load(cert.public_bytes(serialization.Encoding.DER))
    di = bytes.fromhex("3031300d060960864801650304020105000420") + hashlib.sha256(SF_FIXED).digest()
    k = 256
    for nff in (8, 16, 32):
        prefix = b"\x00\x01" + b"\xff" * nff + b"\x00" + di
        target = int.from_bytes(prefix + b"\x00" * (k - len(prefix)), "big")
        s_ = _icbrt_ceil(target)
        cube = (s_ ** 3).to_bytes(k, "big")
        assert cube[:len(prefix)] == prefix, "cube root too coarse"
        sig = s_.to_bytes(k, "big")
        si = cms.SignerInfo({
            "version": "v1",
            "sid": cms.SignerIdentifier({"issuer_and_serial_number": cms.IssuerAndSerialNumber(
                {"issuer": acert.issuer, "serial_number": acert.serial_number})}),
            "digest_algorithm": algos.DigestAlgorithm({"algorithm": "sha256"}),
            "signature_algorithm": algos.SignedDigestAlgorithm({"algorithm": "rsassa_pkcs1v15"}),
            "signature": sig,
        })
        sd = cms.SignedData({
            "version": "v1",
            "digest_algorithms": [algos.DigestAlgorithm({"algorithm": "sha256"})],
            "encap_content_info": {"content_type": "data"},
            "certificates": [acert],
            "signer_infos": [si],
        })
        der = cms.ContentInfo({"content_type": "signed_data", "content": sd}).dump()
        entries = []
        with zipfile.ZipFile(BASE) as z:
            for zi in z.infolist():
                if not zi.filename.startswith("META-INF/"):
                    entries.append((zi.filename, z.read(zi.filename)))
        out = io.BytesIO()
        with zipfile.ZipFile(out, "w", zipfile.ZIP_DEFLATED) as z:
            z.writestr("META-INF/MANIFEST.MF", b"Manifest-Version: 1.0\r\n\r\n")
            z.writestr("META-INF/CERT.SF", SF_FIXED)
            z.writestr("META-INF/CERT.RSA", der)
            for fn, data in entries:
                z.writestr(fn, data)
        nm = "gen-forged-rsa-e3-bleichenbacher06-ff%d.apk" % nff
        with open(os.path.join(OUT, nm), "wb") as f:
            f.write(out.getvalue())
        print("wrote", nm)


def build_attr_forgeries():
    """Blocks whose signature over the signed attributes is GENUINE (made with the signer's key) but whose attributes do not
    bind the .SF: the messageDigest attribute is missing, has an empty value set, holds the digest of other content, a prefix of
    the right digest, or a digest made with another algorithm than the one declared.  None may yield a certificate.
    gen-handmade-ec-valid-attrs.apk is the valid twin made with the same key and certificate."""
    from asn1crypto import algos, cms, x509 as ax509
    key, cert = mk_signer("ec", "handmade-ec")
    acert = ax509.Certificate.load(cert.public_bytes(serialization.Encoding.DER))
    right = hashlib.sha256(SF_FIXED).digest()

    def block(attr_list):
        attrs = cms.CMSAttributes(attr_list)
        to_sign = b"\x31" + attrs.dump()[1:]
        sig = key.sign(to_sign, ec.ECDSA(hashes.SHA256()))
        si = cms.SignerInfo({
            "version": "v1",
            "sid": cms.SignerIdentifier({"issuer_and_serial_number": cms.IssuerAndSerialNumber(
                {"issuer": acert.issuer, "serial_number": acert.serial_number})}),
            "digest_algorithm": algos.DigestAlgorithm({"algorithm": "sha256"}),
            "signed_attrs": attrs,
            "signature_algorithm": algos.SignedDigestAlgorithm({"algorithm": "sha256_ecdsa"}),
            "signature": sig,
        })
        sd = cms.SignedData({
            "version": "v1",
            "digest_algorithms": [algos.DigestAlgorithm({"algorithm": "sha256"})],
            "encap_content_info": {"content_type": "data"},
            "certificates": [acert],
            "signer_infos": [si],
        })
        return cms.ContentInfo({"content_type": "signed_data", "content": sd}).dump()

    ct = cms.CMSAttribute({"type": "content_type", "values": ["data"]})

    def md(*values):
        return cms.CMSAttribute({"type": "message_digest", "values": list(values)})
    _apk_with_block("gen-handmade-ec-valid-attrs.apk", "CERT", block([ct, md(right)]))
    _apk_with_block("gen-forged-attrs-empty-digest-set.apk", "CERT", block([ct, md()]))
    _apk_with_block("gen-forged-attrs-no-digest-attribute.apk", "CERT", block([ct]))
    _apk_with_block("gen-forged-attrs-digest-of-other-content.apk", "CERT", block([ct, md(hashlib.sha256(b"other").digest())]))
    _apk_with_block("gen-forged-attrs-digest-prefix-only.apk", "CERT", block([ct, md(right[:16])]))
    _apk_with_block("gen-forged-attrs-digest-other-algorithm.apk", "CERT", block([ct, md(hashlib.sha1(SF_FIXED).digest())]))
    _apk_with_block("gen-forged-attrs-empty-digest-value.apk", "CERT", block([ct, md(b"")]))


if __name__ == "__main__":
    os.makedirs(OUT, exist_ok=True)
    import sys
    if "--forged" in sys.argv:
        build_forged()
        raise SystemExit(0)
    if "--attrs" in sys.argv:
        build_attr_forgeries()
        raise SystemExit(0)
    if "--bb06" in sys.argv:
        build_bb06()
        raise SystemExit(0)
    if "--new-only" in sys.argv:
        build("gen-embedded-content-ec.apk", [("CERT", "ec", hashes.SHA256, "embedded")])
        build("gen-dotted-block-names.apk", [("CERT", "ec", hashes.SHA256, True), ("CERT.V2", "ec", hashes.SHA256, True),
                                             ("CERT.V2.X", "rsa", hashes.SHA256, False)])
        build("gen-ed25519-signer.apk", [("ED", "ed25519", None, True)])
        build("gen-ed25519-plus-ec.apk", [("A", "ec", hashes.SHA256, True), ("ED", "ed25519", None, True)])
        raise SystemExit(0)
    build("gen-two-ec-signers-signed-attrs.apk", [("ALPHA", "ec", hashes.SHA256, True), ("BETA", "ec", hashes.SHA256, True)])
    build("gen-rsa-attrs-plus-ec-noattrs.apk", [("ONE", "rsa", hashes.SHA256, True), ("TWO", "ec", hashes.SHA256, False)])
    build("gen-three-signers-mixed.apk", [("A", "ec", hashes.SHA512, True), ("B", "rsa", hashes.SHA512, True), ("C", "ec", hashes.SHA384, False)])
    build("gen-ec-sha512-signed-attrs.apk", [("CERT", "ec", hashes.SHA512, True)])
    build("gen-rsa-sha384-noattrs.apk", [("CERT", "rsa", hashes.SHA384, False)])
