"""Seeded class-model generators for dexasm (workload only; never an oracle)."""
from __future__ import annotations

from . import dexasm as A

OBJ = "Ljava/lang/Object;"
STR = "Ljava/lang/String;"

CTOR = A.ACC_PUBLIC | A.ACC_CONSTRUCTOR


def ctor(super_desc=OBJ, extra=None):
    insns = [["invoke", "direct", [0], [super_desc, "<init>", "V", []]]]
    insns += extra or []
    insns.append(["return-void"])
    return {"name": "<init>", "ret": "V", "params": [], "access": CTOR,
            "code": {"regs": 3, "insns": _shift_this(insns, 3), "tries": []}}


def _shift_this(insns, regs):
    """constructors above are written with `this` as v0 for brevity: move it to the last register"""
    out = []
    for ins in insns:
        if ins[0] == "invoke" and ins[2] == [0]:
            ins = [ins[0], ins[1], [regs - 1], ins[3]]
        out.append(ins)
    return out


# --------------------------------------------------------------------------
# C17: files built to share names
# --------------------------------------------------------------------------

def share_model(r):
    """Classes, methods, fields and string constants all drawn from one small pool of names."""
    pool = r.sample(["a", "b", "c", "run", "get", "x", "value", "La/a;", "<init>x"], r.randint(3, 5))
    npk = r.choice([1, 1, 2])
    pkgs = ["a", "b"][:npk]
    classes = []
    used = []                       # a list, not a set: its iteration order feeds the PRNG choices below
    ncls = r.randint(2, 4)
    for ci in range(ncls):
        while True:
            simple = r.choice([p for p in pool if p.isalnum()] or ["a"])
            desc = "L%s/%s;" % (r.choice(pkgs), simple)
            if desc not in used:
                break
            pool.append("k%d" % len(pool))
        used.append(desc)
        consts = [r.choice(pool + used) for _ in range(r.randint(0, 3))]
        sf, inf, dm, vm = [], [], [ctor()], []
        seen_f, seen_m = set(), {("<init>", ())}
        for _ in range(r.randint(0, 3)):
            name = r.choice(pool)
            ty = r.choice(["I", STR, "Z"])
            if (name, ty) in seen_f:
                continue
            seen_f.add((name, ty))
            (sf if r.random() < 0.4 else inf).append({"name": name, "type": ty, "access": 1})
        for f in sf:
            f["access"] |= A.ACC_STATIC
        for _ in range(r.randint(1, 4)):
            name = r.choice(pool)
            params = tuple(r.choice([[], ["I"], [STR], ["I", "I"]]))
            if (name, params) in seen_m:
                continue
            seen_m.add((name, params))
            static = r.random() < 0.4
            insns = []
            for k, s in enumerate(consts):
                if r.random() < 0.7:
                    insns.append(["const-string", k % 2, s])
            if r.random() < 0.5 and classes:
                other = r.choice(classes)
                om = r.choice([m for m in other["vmethods"] + other["dmethods"] if m["name"] != "<init>"] or [None])
                if om is not None and not om["params"]:
                    if om["access"] & A.ACC_STATIC:
                        insns.append(["invoke", "static", [], [other["desc"], om["name"], om["ret"], om["params"]]])
            if r.random() < 0.5 and (sf or inf):
                f = r.choice(sf) if sf else None
                if f is not None:
                    insns.append(["sget", "object" if f["type"] == STR else ("boolean" if f["type"] == "Z" else ""),
                                  0, [desc, f["name"], f["type"]]])
            insns.append(["return-void"])
            m = {"name": name, "ret": "V", "params": list(params),
                 "access": A.ACC_PUBLIC | (A.ACC_STATIC if static else 0),
                 "code": {"regs": 2 + len(params) + 1, "insns": insns, "tries": []}}
            (dm if static else vm).append(m)
        if r.random() < 0.15:
            sf, inf, dm, vm = [], [], [], []          # a class without class data (marker interface, empty inner class)
        classes.append({"desc": desc, "access": 1 if (sf or inf or dm or vm) else 0x601, "super": OBJ, "interfaces": [], "source": None,
                        "sfields": sf, "ifields": inf, "dmethods": dm, "vmethods": vm})
    return {"classes": classes, "strings_extra": [r.choice(pool)]}


# --------------------------------------------------------------------------
# C16: cross-referencing class sets
# --------------------------------------------------------------------------

def xref_model(r, ncls=None):
    """Classes whose methods reference each other, external classes, fields of other classes, strings, types."""
    ncls = ncls or r.randint(2, 8)
    malformed = r.random() < 0.04       # a few models carry a type descriptor that is no descriptor at all
    pk = r.choice(["p", "q/r"])
    # some internal classes live in packages that look like the platform's (apps do bundle android/support, org/apache, org/json ...)
    api_pk = ["android/support/v4", "org/apache/x", "org/json", "junit/framework", "javax/x", "dalvik/x",
              "com/android/internal/util", "org/w3c/dom", "org/xmlpull/v1", "java/x"]
    descs = ["L%s/C%d;" % ((r.choice(api_pk) if r.random() < 0.2 else pk), i) for i in range(ncls)]
    externals = ["Ljava/lang/StringBuilder;", "Landroid/util/Log;", "Lext/E;", "[Ljava/lang/String;", "[I"]
    strings = ["s%d" % i for i in range(r.randint(2, 5))] + ["m0", "f0", descs[0]]
    # declare members first so that references can point anywhere
    decl = []
    for ci, d in enumerate(descs):
        fields = []
        for fi in range(r.randint(0, 3)):
            fields.append({"name": r.choice(["f%d" % fi, "f0", "shared"]), "type": r.choice(["I", STR, descs[r.randrange(ncls)]]),
                           "static": r.random() < 0.5})
        seen = set()
        fields = [f for f in fields if not ((f["name"], f["type"]) in seen or seen.add((f["name"], f["type"])))]
        methods = []
        for mi in range(r.randint(1, 4)):
            methods.append({"name": r.choice(["m%d" % mi, "m0", "shared", "f0"]),
                            "params": r.choice([[], ["I"], [STR], ["I", STR], [descs[r.randrange(ncls)]]]),
                            "ret": r.choice(["V", "V", "I", STR]), "static": r.random() < 0.4})
        seen = set()
        methods = [m for m in methods if not ((m["name"], tuple(m["params"])) in seen or seen.add((m["name"], tuple(m["params"]))))]
        sup = OBJ
        if ci and r.random() < 0.4:
            sup = descs[r.randrange(ci)]
        elif r.random() < 0.15:
            sup = "Lext/Base;"
        decl.append({"desc": d, "fields": fields, "methods": methods, "super": sup,
                     "interfaces": [r.choice(["Ljava/lang/Runnable;", "Lext/I;"])] if r.random() < 0.2 else []})

    def rand_mref():
        k = r.random()
        if k < 0.65:
            c = r.choice(decl)
            m = r.choice(c["methods"])
            return ("static" if m["static"] else r.choice(["virtual", "virtual", "interface", "super"]),
                    [c["desc"], m["name"], m["ret"], m["params"]])
        if k < 0.75:   # internal class, method not defined there (resolved as external / inherited)
            c = r.choice(decl)
            return ("virtual", [c["desc"], "undefined%d" % r.randrange(2), "V", []])
        if k < 0.85:
            return ("direct", [r.choice(descs), "<init>", "V", []])
        e = r.choice(externals)
        return (r.choice(["virtual", "static"]), [e, r.choice(["append", "d", "clone", "m0"]), r.choice(["V", STR, e]),
                                                  r.choice([[], [STR], ["I"]])])

    def rand_fref():
        k = r.random()
        if k < 0.8:
            c = r.choice([c for c in decl if c["fields"]] or [None])
            if c is not None:
                f = r.choice(c["fields"])
                if k < 0.1:
                    # the field named through a subclass that does not declare it (inherited field)
                    subs = [d for d in decl if d["super"] == c["desc"]]
                    if subs:
                        return f["static"], [r.choice(subs)["desc"], f["name"], f["type"]]
                return f["static"], [c["desc"], f["name"], f["type"]]
        return r.random() < 0.5, [r.choice(["Lext/E;", r.choice(descs)]), "extf", "I"]

    def variant(ty):
        return "object" if ty[0] in "L[" else {"Z": "boolean", "J": "wide"}.get(ty, "")

    classes = []
    for c in decl:
        dm, vm = [], []
        dm.append(ctor(c["super"]))
        for m in c["methods"]:
            nparams = len(m["params"])
            regs = 6 + nparams + (0 if m["static"] else 1)
            insns = []
            for _ in range(r.randint(1, 9)):
                k = r.random()
                if k < 0.35:
                    kind, ref = rand_mref()
                    nargs = (0 if kind == "static" else 1) + len(ref[3])
                    if r.random() < 0.2:
                        insns.append(["invoke/range", kind, 0, nargs, ref])
                    else:
                        insns.append(["invoke", kind, list(range(nargs)), ref])
                    if ref[2] != "V" and r.random() < 0.5:
                        insns.append(["move-result", "object" if ref[2][0] in "L[" else "", 0])
                elif k < 0.6:
                    static, ref = rand_fref()
                    get = r.random() < 0.5
                    if static:
                        insns.append(["sget" if get else "sput", variant(ref[2]), 0, ref])
                    else:
                        insns.append(["iget" if get else "iput", variant(ref[2]), 0, 1, ref])
                elif k < 0.75:
                    s = r.choice(strings)
                    insns.append(["const-string/jumbo" if r.random() < 0.15 else "const-string", r.randrange(3), s])
                elif k < 0.85:
                    insns.append(["new-instance", 0, r.choice(descs + ["Ljava/lang/StringBuilder;", "Lext/E;"])])
                elif k < 0.93:
                    insns.append(["const-class", 0, r.choice(descs + externals + (["[", "", "[["] if malformed else []))])
                elif k < 0.97:
                    insns.append(["check-cast", 0, r.choice(descs + externals)])
                else:
                    insns.append(["const4", r.randrange(3), r.randint(-8, 7)])
            if m["ret"] == "V":
                insns.append(["return-void"])
            else:
                insns.append(["return", "object" if m["ret"][0] in "L[" else "", 0])
            mm = {"name": m["name"], "ret": m["ret"], "params": m["params"],
                  "access": A.ACC_PUBLIC | (A.ACC_STATIC if m["static"] else 0),
                  "code": {"regs": regs, "insns": insns, "tries": []}}
            (dm if m["static"] else vm).append(mm)
        if r.random() < 0.15:
            vm.append({"name": "abs", "ret": "V", "params": [], "access": A.ACC_PUBLIC | A.ACC_ABSTRACT, "code": None})
        if r.random() < 0.1:
            dm, vm = [], []        # a class without any method (fields only, or nothing): its DEX part may lack "<init>"
        classes.append({"desc": c["desc"], "access": 1, "super": c["super"], "interfaces": c["interfaces"], "source": None,
                        "sfields": [{"name": f["name"], "type": f["type"], "access": 9} for f in c["fields"] if f["static"]],
                        "ifields": [{"name": f["name"], "type": f["type"], "access": 1} for f in c["fields"] if not f["static"]],
                        "dmethods": dm, "vmethods": vm})
    return {"classes": classes, "strings_extra": []}


# --------------------------------------------------------------------------
# C22: structured control flow (loops, nested ifs, short-circuit conditions, switches, try/catch)
# --------------------------------------------------------------------------

NEG = {"eq": "ne", "ne": "eq", "lt": "ge", "ge": "lt", "gt": "le", "le": "gt"}


class _Structured:
    def __init__(self, r, nlocals=5, nparams=2):
        self.r = r
        self.insns = []
        self.tries = []
        self.nl = 0
        self.locals = list(range(nlocals))
        self.exc_reg = nlocals
        self.obj_reg = nlocals + 1
        self.regs = nlocals + 2 + nparams
        self.params = [nlocals + 2 + i for i in range(nparams)]
        self.budget = r.randint(6, 40)

    def label(self):
        self.nl += 1
        return "L%d" % self.nl

    def emit(self, *ins):
        self.insns.append(list(ins))

    def var(self):
        return self.r.choice(self.locals + self.params)

    def simple(self):
        r = self.r
        k = r.random()
        d = r.choice(self.locals)
        if k < 0.3:
            self.emit("const4", d, r.randint(-8, 7))
        elif k < 0.55:
            self.emit("binop", r.choice(["add", "sub", "mul", "and", "or", "xor"]), d, self.var(), self.var())
        elif k < 0.75:
            self.emit("binoplit8", r.choice(["add", "mul", "and"]), d, self.var(), r.randint(-5, 9))
        elif k < 0.84:
            self.emit("invoke", "static", [self.var()], ["Lext/U;", "f", "I", ["I"]])
            self.emit("move-result", "", d)
        elif k < 0.9:
            # two calls back to back, results combined afterwards; or a result that is never moved
            self.emit("invoke", "static", [self.var()], ["Lext/U;", "g2", "I", ["I"]])
            if r.random() < 0.6:
                self.emit("move-result", "", d)
                self.emit("invoke", "static", [d], ["Lext/U;", "f", "I", ["I"]])
                d2 = r.choice(self.locals)
                self.emit("move-result", "", d2)
                self.emit("binop", "add", d, d, d2)
        elif k < 0.93:
            self.emit("sget", "", d, ["Lext/U;", "g", "I"])
        elif k < 0.95:
            # string constants beyond ASCII (escaping must not depend on the locale of the process)
            self.emit("const-string", self.obj_reg, r.choice(["caf\u00e9", "\u4e2d\u6587", "a\u0301", "\u00df\u00fc", "tab\tq\"uote", "\U0001F600"]))
            self.emit("invoke", "static", [self.obj_reg], ["Lext/U;", "use", "V", [OBJ]])
        else:
            # an object register defined with two different types on two paths, then used: its declared type has to be
            # chosen among the types of its definitions
            o = self.obj_reg
            l1, l2 = self.label(), self.label()
            ta, tb = r.sample(["Ljava/util/HashMap;", "Ljava/util/ArrayList;", "Lext/A;", "Lext/B;", STR], 2)
            self.emit("ifz", r.choice(list(NEG)), self.var(), l1)
            self.emit("new-instance", o, ta)
            self.emit("invoke", "direct", [o], [ta, "<init>", "V", []])
            self.emit("goto16", l2)
            self.emit("label", l1)
            if tb == STR:
                self.emit("const-string", o, "s")
            else:
                self.emit("new-instance", o, tb)
                self.emit("invoke", "direct", [o], [tb, "<init>", "V", []])
            self.emit("label", l2)
            self.emit("invoke", "static", [o], ["Lext/U;", "use", "V", [OBJ]])

    def cond(self, depth=0):
        r = self.r
        k = r.random()
        if depth < 2 and k < 0.18:
            return ("and", self.cond(depth + 1), self.cond(depth + 1))
        if depth < 2 and k < 0.36:
            return ("or", self.cond(depth + 1), self.cond(depth + 1))
        if k < 0.6:
            return ("z", r.choice(list(NEG)), self.var())
        return ("c", r.choice(list(NEG)), self.var(), self.var())

    def jf(self, c, target):
        """jump to target if c is false, fall through if true"""
        if c[0] == "and":
            self.jf(c[1], target)
            self.jf(c[2], target)
        elif c[0] == "or":
            lt = self.label()
            self.jt(c[1], lt)
            self.jf(c[2], target)
            self.emit("label", lt)
        elif c[0] == "z":
            self.emit("ifz", NEG[c[1]], c[2], target)
        else:
            self.emit("if", NEG[c[1]], c[2], c[3], target)

    def jt(self, c, target):
        if c[0] == "or":
            self.jt(c[1], target)
            self.jt(c[2], target)
        elif c[0] == "and":
            lf = self.label()
            self.jf(c[1], lf)
            self.jt(c[2], target)
            self.emit("label", lf)
        elif c[0] == "z":
            self.emit("ifz", c[1], c[2], target)
        else:
            self.emit("if", c[1], c[2], c[3], target)

    def block(self, depth, loop):
        r = self.r
        for _ in range(r.randint(1, 3)):
            self.budget -= 1
            k = r.random()
            if depth >= 3 or self.budget <= 0 or k < 0.30:
                self.simple()
            elif k < 0.52:
                lelse, lend = self.label(), self.label()
                self.jf(self.cond(), lelse)
                self.block(depth + 1, loop)
                if r.random() < 0.6:
                    self.emit("goto16", lend)
                    self.emit("label", lelse)
                    self.block(depth + 1, loop)
                    self.emit("label", lend)
                else:
                    self.emit("label", lelse)
            elif k < 0.70:
                lhead, lend = self.label(), self.label()
                self.emit("label", lhead)
                self.jf(self.cond(), lend)
                self.block(depth + 1, (lhead, lend))
                self.emit("goto16", lhead)
                self.emit("label", lend)
            elif k < 0.78:
                lhead, lend, lcont = self.label(), self.label(), self.label()
                self.emit("label", lhead)
                self.block(depth + 1, (lcont, lend))
                self.emit("label", lcont)
                self.jt(self.cond(), lhead)
                self.emit("label", lend)
            elif k < 0.87:
                n = r.randint(2, 4)
                labs = [self.label() for _ in range(n)]
                lend = self.label()
                self.emit("packed-switch", self.var(), r.randint(-1, 3), labs)
                self.simple()
                self.emit("goto16", lend)
                for i, lab in enumerate(labs):
                    self.emit("label", lab)
                    self.block(depth + 1, loop)
                    if i < n - 1 and r.random() < 0.75:
                        self.emit("goto16", lend)
                self.emit("label", lend)
            elif k < 0.94:
                ls, le, lh, lafter = self.label(), self.label(), self.label(), self.label()
                self.emit("label", ls)
                self.emit("invoke", "static", [self.var()], ["Lext/U;", "f", "I", ["I"]])
                self.emit("move-result", "", r.choice(self.locals))
                if r.random() < 0.5:
                    self.block(depth + 1, loop)
                self.emit("label", le)
                self.emit("goto16", lafter)
                self.emit("label", lh)
                self.emit("move-exception", self.exc_reg)
                self.simple()
                kind = r.random()
                if kind < 0.35:
                    # several handlers for one try range: each its own block, all joining after the try
                    extra = []
                    # inside a loop the handlers may jump back to the loop head instead ("retry loop")
                    # or to the start of the try range itself: while (true) { try { ...; break; } catch (A) {} catch (B) {} }
                    kj = r.random()
                    ljoin = ls if kj < 0.25 else (loop[0] if (loop and kj < 0.55) else lafter)
                    for ty in r.sample(["Ljava/lang/IllegalStateException;", "Ljava/io/IOException;",
                                        "Ljava/lang/NullPointerException;", "Ljava/lang/ArithmeticException;"], r.randint(1, 2)):
                        lx = self.label()
                        self.emit("goto16", ljoin)
                        self.emit("label", lx)
                        self.emit("move-exception", self.exc_reg)
                        self.simple()
                        if r.random() < 0.3:
                            self.emit("return", "", self.var())
                        extra.append([ty, lx])
                    if ljoin is not lafter:
                        self.emit("goto16", ljoin)
                    self.emit("label", lafter)
                    catchall = None
                    if r.random() < 0.3:
                        catchall = extra.pop()[1]
                    self.tries.append([ls, le, [["Ljava/lang/RuntimeException;", lh]] + extra, catchall])
                else:
                    self.emit("label", lafter)
                    if kind < 0.55:
                        self.tries.append([ls, le, [["Ljava/lang/RuntimeException;", lh]], None])
                    elif kind < 0.75:
                        self.tries.append([ls, le, [], lh])
                    else:
                        self.tries.append([ls, le, [["Ljava/lang/Exception;", lh]], None])
            elif loop and k < 0.975:
                lskip = self.label()
                self.jf(self.cond(), lskip)
                self.emit("goto16", loop[r.randrange(2)])
                self.emit("label", lskip)
            else:
                lskip = self.label()
                self.jf(self.cond(), lskip)
                self.emit("return", "", self.var())
                self.emit("label", lskip)


def structured_method(r, name, static=True):
    g = _Structured(r)
    for v in g.locals:
        g.emit("const4", v, r.randint(0, 3))
    g.block(0, None)
    g.emit("return", "", g.var())
    # a goto16 to the immediately following label has offset 1 (legal); offset 0 cannot occur (labels follow the goto)
    access = A.ACC_PUBLIC | (A.ACC_STATIC if static else 0)
    # compiler-generated and less common modifiers (bridge 0x40, varargs 0x80, synthetic 0x1000, strict 0x800,
    # declared-synchronized 0x20000, final 0x10, synchronized 0x20)
    for flag, p in ((0x40, 0.12), (0x1000, 0.15), (0x80, 0.08), (0x20000, 0.08), (0x10, 0.2), (0x800, 0.05), (0x20, 0.05)):
        if r.random() < p:
            access |= flag
    regs = g.regs + (0 if static else 1)
    return {"name": name, "ret": "I", "params": ["I", "I"], "access": access,
            "code": {"regs": regs, "insns": g.insns, "tries": g.tries}}


def structured_model(r, ncls=None, nmeth=None):
    classes = []
    for ci in range(ncls or r.randint(1, 3)):
        dm = [ctor()]
        vm = []
        for mi in range(nmeth or r.randint(2, 6)):
            dm.append(structured_method(r, "m%d" % mi, static=True))
        classes.append({"desc": "Ls/S%d;" % ci, "access": 1, "super": OBJ, "interfaces": [], "source": None,
                        "sfields": [{"name": "g", "type": "I", "access": 9}] if r.random() < 0.5 else [],
                        "ifields": [], "dmethods": dm, "vmethods": vm})
    return {"classes": classes, "strings_extra": []}
