#!/bin/bash
# tools_seed_verify.sh <prop-lower e.g. c32> : verify the three candidate seeded changes of /tmp/seed-<prop>/ in the scratch worktree /tmp/wt-<prop>
# For each k: demo exits 0 on the clean tree, 1 with the patch; full test suite with the patch gives the baseline result.
p=$1; pre=${2:-}; wt=/tmp/wt${pre}-$p; out=/tmp/seed${pre}-$p
cd $wt || exit 2
git checkout -q -- . ; git clean -fdq -e tests/data >/dev/null 2>&1
for k in 1 2 3; do [ -d $out/$k ] || continue
  d=$out/$k; [ -f $d/patch.diff ] || { echo "$p/$k: no patch"; continue; }
  r0=$(cd $wt && PYTHONPATH=$wt timeout 300 /venv/bin/python $d/demo.py >/dev/null 2>&1; echo $?)
  if ! git apply --check $d/patch.diff 2>/dev/null; then echo "$p/$k: patch does not apply"; continue; fi
  git apply $d/patch.diff
  r1=$(cd $wt && PYTHONPATH=$wt timeout 300 /venv/bin/python $d/demo.py >/dev/null 2>&1; echo $?)
  PYTHONPATH=$wt timeout 2400 /venv/bin/python -m pytest -q -p no:cacheprovider --timeout=900 tests > $d/pytest.log 2>&1
  summary=$(tail -1 $d/pytest.log)
  git checkout -q -- . ; git clean -fdq -e tests/data >/dev/null 2>&1
  echo "$p/$k: demo clean=$r0 patched=$r1 | tests: $summary" | tee $d/verify.txt
done
