#!/usr/bin/env python3
"""tools_reach_table.py : rewrite the table of DESIGN.md section 9.9 from evidence/*.json (run after the quick tier)."""
import json
import re

ORDER = ["C36", "C22", "C17", "C16", "C35", "C09", "C32", "C37"]
rows = ["| property | evaluations | distinct non-trivial | wall | evaluations / h | simulated time unit | fault kinds fired (first five) |",
        "|---|---|---|---|---|---|---|"]
for p in ORDER:
    d = json.load(open(f"evidence/{p}.json"))
    c = d["coverage"]
    ev = c.get("evaluations", 0)
    wall = d.get("wall_s", 0) or 1
    ff = c.get("faults_fired") or {}
    first = ", ".join(f"{k}:{v}" for k, v in sorted(ff.items())[:5]) or "-"
    unit = (c.get("simulated_time", {}) or {}).get("unit") or c.get("time_unit") or ""
    rows.append(f"| {p} | {ev:,} | {c.get('distinct_nontrivial', 0):,} | {wall:.0f} s | {int(ev * 3600 / wall):,} | {str(unit)[:60]} | {first} |")
s = open("DESIGN.md").read()
m = re.search(r"(### 9\.9[^\n]*\n\n)(\|.*?\n)\n", s, re.S)
s = s[:m.start(2)] + "\n".join(rows) + "\n" + s[m.end(2):]
open("DESIGN.md", "w").write(s)
print("\n".join(rows))
